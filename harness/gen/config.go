package gen

import (
	"fmt"
	"hash/fnv"
	"strings"
	"time"
	"unicode"

	bs "github.com/danthegoodman1/bloomsearch"

	"verifharness/core"
	"verifharness/refsem"
)

// Tokenizers. "default" hands the engine its own BasicWhitespaceLowerTokenizer
// (so the zero-alloc fast path is what runs) while the oracle uses the
// documented behaviour; the others are deterministic custom tokenizers used
// verbatim on both sides.
func splitNonAlnum(s string) []string {
	return strings.FieldsFunc(strings.ToLower(s), func(r rune) bool { return !unicode.IsLetter(r) && !unicode.IsDigit(r) })
}

func bigrams(s string) []string {
	rs := []rune(s)
	if len(rs) == 0 {
		return nil
	}
	if len(rs) == 1 {
		return []string{s}
	}
	out := make([]string, 0, len(rs)-1)
	for i := 0; i+1 < len(rs); i++ {
		out = append(out, string(rs[i:i+2]))
	}
	return out
}

func identity(s string) []string { return []string{s} }

func dropAll(s string) []string { return nil }

// upperFields is deliberately close to the default (case differs) to catch a
// fast path applied to the wrong tokenizer.
func upperFields(s string) []string { return strings.Fields(strings.ToUpper(s)) }

// defaultWrapped hands the engine the exported default tokenizer behind a closure: the engine
// cannot recognise it and takes its generic path, calling the exported function itself. The
// oracle still uses the documented behaviour.
func defaultWrapped(s string) []string { return bs.BasicWhitespaceLowerTokenizer(s) }

// stemS is deliberately not idempotent (stemS("class") = "clas", stemS("clas") = "cla"): an
// indexed token need not be a fixed point of the tokenizer, and a query names the token as it
// was emitted. Its tokens are substrings of (the lowered copy of) the input.
func stemS(s string) []string {
	fs := strings.Fields(strings.ToLower(s))
	for i, f := range fs {
		if len(f) > 1 && f[len(f)-1] == 's' {
			fs[i] = f[:len(f)-1]
		}
	}
	return fs
}

var Tokenizers = []refsem.Tokenizer{
	{Name: "default", Fn: bs.BasicWhitespaceLowerTokenizer, Ref: refsem.DefaultRef},
	{Name: "defaultWrapped", Fn: defaultWrapped, Ref: refsem.DefaultRef},
	{Name: "splitNonAlnum", Fn: splitNonAlnum, Ref: splitNonAlnum},
	{Name: "bigrams", Fn: bigrams, Ref: bigrams},
	{Name: "identity", Fn: identity, Ref: identity},
	{Name: "dropAll", Fn: dropAll, Ref: dropAll},
	{Name: "upperFields", Fn: upperFields, Ref: upperFields},
	{Name: "stemS", Fn: stemS, Ref: stemS},
}

func TokenizerByName(name string) refsem.Tokenizer {
	for _, t := range Tokenizers {
		if t.Name == name {
			return t
		}
	}
	panic("unknown tokenizer " + name)
}

func PickTokenizer(r *core.Rand) refsem.Tokenizer {
	if r.Chance(0.6) {
		return Tokenizers[0]
	}
	return core.Pick(r, Tokenizers[1:])
}

// Partition functions, named so a scenario descriptor can be replayed. Each
// has an engine-side Fn and the harness computes the expected id by calling
// the same deterministic function on the same row.
type PartFunc struct {
	Name string
	Fn   bs.PartitionFunc
}

func strOf(v any) string {
	switch t := v.(type) {
	case string:
		return t
	case nil:
		return ""
	default:
		return fmt.Sprintf("%v", t)
	}
}

func partByKey(key string) bs.PartitionFunc {
	return func(row map[string]any) string {
		v, ok := row[key]
		if !ok {
			return "none"
		}
		// Partition ids travel through the metadata JSON, which can only carry
		// valid UTF-8: sanitize and truncate on a rune boundary.
		rs := []rune(strings.ToValidUTF8(strOf(v), "?"))
		if len(rs) > 12 {
			rs = rs[:12]
		}
		return "p_" + string(rs)
	}
}

func partByVidBucket(n int, sometimesEmpty bool) bs.PartitionFunc {
	return func(row map[string]any) string {
		h := fnv.New32a()
		h.Write([]byte(strOf(row["_vid"])))
		b := int(h.Sum32() % uint32(n))
		if sometimesEmpty && b == 0 {
			return ""
		}
		return fmt.Sprintf("b%02d", b)
	}
}

func PickPartFunc(r *core.Rand, v *Vocab) PartFunc {
	switch r.Intn(6) {
	case 0, 1:
		return PartFunc{Name: "none"}
	case 2:
		k := core.Pick(r, append([]string{"level", "service"}, v.Keys...))
		return PartFunc{Name: "byKey:" + k, Fn: partByKey(k)}
	case 3:
		n := r.Range(1, 6)
		return PartFunc{Name: fmt.Sprintf("bucket:%d", n), Fn: partByVidBucket(n, false)}
	case 4:
		n := r.Range(2, 5)
		return PartFunc{Name: fmt.Sprintf("bucketSometimesEmpty:%d", n), Fn: partByVidBucket(n, true)}
	default:
		n := r.Range(8, 40)
		return PartFunc{Name: fmt.Sprintf("bucket:%d", n), Fn: partByVidBucket(n, false)}
	}
}

// EngineSpec is a replayable description of one engine configuration.
type EngineSpec struct {
	Tokenizer   string   `json:"tokenizer"`
	Partition   string   `json:"partition"`
	MinMax      []string `json:"minmax,omitempty"`
	Compression string   `json:"compression"`
	ZstdLevel   int      `json:"zstd_level,omitempty"`
	FPR         float64  `json:"fpr"`
	RGRows      int      `json:"max_row_group_rows"`
	RGBytes     int      `json:"max_row_group_bytes"`
	BufRows     int      `json:"max_buffered_rows"`
	BufBytes    int      `json:"max_buffered_bytes"`
	MaxFileSize int      `json:"max_file_size"`
	MergeFiles  int      `json:"max_files_to_merge"`
	QueryConc   int      `json:"max_query_concurrency"`
	IngestBuf   int      `json:"ingest_buffer"`

	Tok  refsem.Tokenizer `json:"-"`
	Part PartFunc         `json:"-"`
}

var FPRs = []float64{0.5, 0.2, 0.05, 0.01, 0.001, 1e-6, 1e-12}

func PickEngineSpec(r *core.Rand, v *Vocab, tok refsem.Tokenizer) EngineSpec {
	s := EngineSpec{Tok: tok, Tokenizer: tok.Name}
	s.Part = PickPartFunc(r, v)
	s.Partition = s.Part.Name
	for _, k := range v.Nums {
		if r.Chance(0.6) {
			s.MinMax = append(s.MinMax, k)
		}
	}
	s.Compression = core.Pick(r, []string{"none", "snappy", "zstd", ""})
	if s.Compression == "zstd" {
		s.ZstdLevel = core.Pick(r, []int{1, 2, 3, 4}) // levels 5-22 pass config validation but the encoder rejects them (observation, see DESIGN.md)
	}
	if r.Chance(0.5) {
		s.FPR = core.Pick(r, []float64{0.5, 0.2})
	} else {
		s.FPR = core.Pick(r, FPRs)
	}
	s.RGRows = core.Pick(r, []int{1, 2, 3, 5, 10, 50, 1000})
	s.RGBytes = core.Pick(r, []int{1, 200, 1000, 5000, 100000, 10 << 20})
	s.BufRows = core.Pick(r, []int{1, 2, 5, 20, 100, 10000})
	s.BufBytes = core.Pick(r, []int{1, 500, 5000, 1 << 20})
	s.MaxFileSize = core.Pick(r, []int{1, 2000, 20000, 1 << 20, 10 << 30})
	s.MergeFiles = core.Pick(r, []int{2, 3, 5, 10, 100})
	s.QueryConc = core.Pick(r, []int{1, 2, 4, 16, 1000})
	s.IngestBuf = core.Pick(r, []int{1, 4, 100})
	return s
}

func (s EngineSpec) Config() bs.BloomSearchEngineConfig {
	c := bs.DefaultBloomSearchEngineConfig()
	c.Tokenizer = s.Tok.Fn
	c.PartitionFunc = s.Part.Fn
	c.MinMaxIndexes = s.MinMax
	c.RowDataCompression = bs.CompressionType(s.Compression)
	if s.ZstdLevel > 0 {
		c.ZstdCompressionLevel = s.ZstdLevel
	}
	c.BloomFalsePositiveRate = s.FPR
	c.MaxRowGroupRows = s.RGRows
	c.MaxRowGroupBytes = s.RGBytes
	c.MaxBufferedRows = s.BufRows
	c.MaxBufferedBytes = s.BufBytes
	c.MaxBufferedTime = time.Hour
	c.MaxFileSize = s.MaxFileSize
	c.MaxFilesToMergePerOperation = s.MergeFiles
	c.MaxQueryConcurrency = s.QueryConc
	c.IngestBufferSize = s.IngestBuf
	return c
}

// PartitionOf is the harness's own evaluation of the partition function.
func (s EngineSpec) PartitionOf(row map[string]any) string {
	if s.Part.Fn == nil {
		return ""
	}
	return s.Part.Fn(row)
}

// PartByKey exposes the by-key partition function (rows without the key go to "none").
func PartByKey(key string) PartFunc { return PartFunc{Name: "byKey:" + key, Fn: partByKey(key)} }

// PickPartFuncBucket exposes the bucket partition function.
func PickPartFuncBucket(n int) bs.PartitionFunc { return partByVidBucket(n, false) }
