package gen

import (
	"math"
	"sort"
	"strings"

	bs "github.com/danthegoodman1/bloomsearch"

	"verifharness/core"
	"verifharness/refsem"
)

// DataFacts is what query generation draws from: entries that really occur.
type DataFacts struct {
	Fields     []string
	Tokens     []string
	Pairs      [][2]string // (path, token)
	LeafTexts  [][2]string // (path, text)
	Partitions []string
	NumKeys    []string
	NumValues  []int64 // interesting operands near real values
}

func FactsFrom(docs []*refsem.Doc, tok func(string) []string, partitions []string, numKeys []string, numValues []int64) *DataFacts {
	f := &DataFacts{Partitions: partitions, NumKeys: numKeys, NumValues: numValues}
	fs, ts := map[string]struct{}{}, map[string]struct{}{}
	ps := map[[2]string]struct{}{}
	for _, d := range docs {
		for k := range d.Fields {
			fs[k] = struct{}{}
		}
		for _, l := range d.Leaves {
			if !l.HasText {
				continue
			}
			if len(f.LeafTexts) < 400 {
				f.LeafTexts = append(f.LeafTexts, [2]string{l.Path, l.Text})
			}
			for _, t := range tok(l.Text) {
				ts[t] = struct{}{}
				ps[[2]string{l.Path, t}] = struct{}{}
			}
		}
	}
	for k := range fs {
		f.Fields = append(f.Fields, k)
	}
	for k := range ts {
		f.Tokens = append(f.Tokens, k)
	}
	for k := range ps {
		f.Pairs = append(f.Pairs, k)
	}
	sort.Strings(f.Fields)
	sort.Strings(f.Tokens)
	sort.Slice(f.Pairs, func(i, j int) bool {
		if f.Pairs[i][0] != f.Pairs[j][0] {
			return f.Pairs[i][0] < f.Pairs[j][0]
		}
		return f.Pairs[i][1] < f.Pairs[j][1]
	})
	return f
}

func nearMiss(r *core.Rand, s string) string {
	switch r.Intn(7) {
	case 0:
		return strings.ToUpper(s)
	case 1:
		return s + "."
	case 2:
		return "." + s
	case 3:
		if i := strings.LastIndex(s, "."); i > 0 {
			return s[:i]
		}
		return s + "x"
	case 4:
		return s + "::"
	case 5:
		if rs := []rune(s); len(rs) > 1 {
			return string(rs[:len(rs)-1]) // rune boundary: query strings stay valid UTF-8
		}
		return ""
	default:
		return s + ".zz"
	}
}

func (f *DataFacts) field(r *core.Rand) string {
	if len(f.Fields) == 0 || r.Chance(0.1) {
		return core.Pick(r, []string{"", "nope", "a", "level", ".", "a.b"})
	}
	s := core.Pick(r, f.Fields)
	if r.Chance(0.15) {
		return nearMiss(r, s)
	}
	return s
}

func (f *DataFacts) token(r *core.Rand) string {
	if len(f.Tokens) == 0 || r.Chance(0.1) {
		return core.Pick(r, []string{"", "nope", "error", "ERROR", "\ufffd"})
	}
	s := core.Pick(r, f.Tokens)
	if r.Chance(0.15) {
		return nearMiss(r, s)
	}
	return s
}

// BloomLeaf draws a single condition.
func (f *DataFacts) BloomLeaf(r *core.Rand) bs.BloomExpression {
	switch r.Intn(10) {
	case 0, 1, 2:
		return bs.Field(f.field(r))
	case 3, 4, 5:
		return bs.Token(f.token(r))
	case 6, 7, 8:
		if len(f.Pairs) > 0 && r.Chance(0.75) {
			p := core.Pick(r, f.Pairs)
			if r.Chance(0.12) {
				return bs.FieldToken(nearMiss(r, p[0]), p[1])
			}
			if r.Chance(0.12) {
				return bs.FieldToken(p[0], nearMiss(r, p[1]))
			}
			return bs.FieldToken(p[0], p[1])
		}
		return bs.FieldToken(f.field(r), f.token(r))
	default:
		// degenerate nodes: nil condition, unknown condition type
		if r.Bool() {
			return bs.BloomExpression{ExpressionType: bs.BloomExpressionCondition}
		}
		return bs.BloomExpression{ExpressionType: bs.BloomExpressionCondition, Condition: &bs.BloomCondition{Type: "WEIRD", Field: f.field(r), Token: f.token(r)}}
	}
}

// BloomTree draws a random AND/OR tree of the given depth; raw=true builds
// nodes by hand (no constructor flattening), raw=false uses And/Or.
func (f *DataFacts) BloomTree(r *core.Rand, depth int, raw bool) bs.BloomExpression {
	if depth <= 0 || r.Chance(0.35) {
		return f.BloomLeaf(r)
	}
	n := r.Range(0, 3)
	if r.Chance(0.85) && n == 0 {
		n = 2
	}
	kids := make([]bs.BloomExpression, n)
	for i := range kids {
		kids[i] = f.BloomTree(r, depth-1, raw)
	}
	and := r.Bool()
	if r.Chance(0.03) {
		return bs.BloomExpression{ExpressionType: "XOR", Children: kids}
	}
	if raw {
		t := bs.BloomExpressionOr
		if and {
			t = bs.BloomExpressionAnd
		}
		return bs.BloomExpression{ExpressionType: t, Children: kids}
	}
	if and {
		return bs.And(kids...)
	}
	return bs.Or(kids...)
}

var regexFamily = []string{"^%s$", "%s", "(?i)%s", "^%s", "%s$", "^.*%s.*$", "[%s]+", "^(%s|zzz)$"}

func (f *DataFacts) RegexLeaf(r *core.Rand) bs.RegexExpression {
	if r.Chance(0.05) {
		return bs.RegexExpression{ExpressionType: bs.RegexExpressionCondition} // nil condition
	}
	field := f.field(r)
	pat := "."
	if len(f.LeafTexts) > 0 && r.Chance(0.8) {
		lt := core.Pick(r, f.LeafTexts)
		if r.Chance(0.7) {
			field = lt[0]
			if r.Chance(0.3) {
				if i := strings.LastIndex(field, "."); i > 0 {
					field = field[:i] // an ancestor path
				}
			}
		}
		text := lt[1]
		if len(text) > 24 {
			text = text[:24]
		}
		// keep valid UTF-8 boundaries
		for len(text) > 0 && !validUTF8Prefix(text) {
			text = text[:len(text)-1]
		}
		q := regexpQuote(text)
		form := core.Pick(r, regexFamily)
		if strings.HasPrefix(form, "[") {
			q = regexpQuoteClass(text)
			if q == "" {
				form = "%s"
			}
		}
		pat = strings.Replace(form, "%s", q, 1)
	} else {
		pat = core.Pick(r, []string{"^$", ".", "^[0-9.eE+-]+$", "^(true|false)$", "\\s", "^\\S+$", "é", "(?i)k"})
	}
	return bs.FieldRegex(field, pat)
}

func (f *DataFacts) RegexTree(r *core.Rand, depth int, raw bool) bs.RegexExpression {
	if depth <= 0 || r.Chance(0.5) {
		return f.RegexLeaf(r)
	}
	n := r.Range(0, 3)
	if r.Chance(0.85) && n == 0 {
		n = 2
	}
	kids := make([]bs.RegexExpression, n)
	for i := range kids {
		kids[i] = f.RegexTree(r, depth-1, raw)
	}
	and := r.Bool()
	if raw {
		t := bs.RegexExpressionOr
		if and {
			t = bs.RegexExpressionAnd
		}
		return bs.RegexExpression{ExpressionType: t, Children: kids}
	}
	if and {
		return bs.RegexAnd(kids...)
	}
	return bs.RegexOr(kids...)
}

func (f *DataFacts) operand(r *core.Rand) int64 {
	if len(f.NumValues) > 0 && r.Chance(0.7) {
		v := core.Pick(r, f.NumValues)
		switch r.Intn(4) {
		case 0:
			if v < math.MaxInt64 {
				return v + 1
			}
		case 1:
			if v > math.MinInt64 {
				return v - 1
			}
		}
		return v
	}
	return core.Pick(r, []int64{0, 1, -1, 50, 100, math.MaxInt64, math.MinInt64, math.MaxInt64 - 1, math.MinInt64 + 1, 1 << 53})
}

func (f *DataFacts) NumericCond(r *core.Rand) bs.NumericCondition {
	a, b := f.operand(r), f.operand(r)
	switch r.Intn(11) {
	case 0:
		return bs.NumericEquals(a)
	case 1:
		return bs.NumericNotEquals(a)
	case 2:
		return bs.NumericGreaterThan(a)
	case 3:
		return bs.NumericGreaterThanEqual(a)
	case 4:
		return bs.NumericLessThan(a)
	case 5:
		return bs.NumericLessThanEqual(a)
	case 6:
		return bs.NumericIn(a, b, f.operand(r))
	case 7:
		return bs.NumericNotIn(a, b)
	case 8:
		if a > b && r.Chance(0.8) {
			a, b = b, a
		}
		return bs.NumericBetween(a, b)
	case 9:
		if a > b && r.Chance(0.8) {
			a, b = b, a
		}
		return bs.NumericNotBetween(a, b)
	default:
		return bs.NumericCondition{Operator: "LIKE", Value: a}
	}
}

func (f *DataFacts) partition(r *core.Rand) string {
	if len(f.Partitions) > 0 && r.Chance(0.8) {
		return core.Pick(r, f.Partitions)
	}
	return core.Pick(r, []string{"", "b00", "b01", "p_error", "zzz", "none"})
}

func (f *DataFacts) StringCond(r *core.Rand) bs.StringCondition {
	a, b := f.partition(r), f.partition(r)
	switch r.Intn(12) {
	case 10:
		return bs.PartitionLessThan(a)
	case 11:
		// bounds in either order (an empty interval is a legal condition)
		return bs.PartitionBetween(a, b)
	case 0, 1:
		return bs.PartitionEquals(a)
	case 2:
		return bs.PartitionNotEquals(a)
	case 3:
		return bs.PartitionIn(a, b)
	case 4:
		return bs.PartitionNotIn(a, b)
	case 5:
		return bs.PartitionGreaterThan(a)
	case 6:
		return bs.PartitionLessThanEqual(a)
	case 7:
		if a > b {
			a, b = b, a
		}
		return bs.PartitionBetween(a, b)
	case 8:
		return bs.PartitionNotBetween(a, b)
	default:
		return bs.PartitionGreaterThanEqual(a)
	}
}

func (f *DataFacts) PrefilterLeaf(r *core.Rand) bs.PrefilterExpression {
	switch r.Intn(12) {
	case 0, 1, 2, 3:
		return bs.Partition(f.StringCond(r))
	case 4, 5, 6, 7, 8, 9:
		key := "ts"
		if len(f.NumKeys) > 0 {
			key = core.Pick(r, f.NumKeys)
		}
		if r.Chance(0.05) {
			key = "missingkey"
		}
		return bs.MinMax(key, f.NumericCond(r))
	case 10:
		return bs.PrefilterExpression{ExpressionType: bs.PrefilterExpressionCondition} // nil condition
	default:
		return bs.PrefilterExpression{ExpressionType: bs.PrefilterExpressionCondition, Condition: &bs.PrefilterCondition{ConditionType: "GEO"}}
	}
}

func (f *DataFacts) PrefilterTree(r *core.Rand, depth int, raw bool) bs.PrefilterExpression {
	if depth <= 0 || r.Chance(0.45) {
		return f.PrefilterLeaf(r)
	}
	n := r.Range(0, 3)
	if r.Chance(0.85) && n == 0 {
		n = 2
	}
	kids := make([]bs.PrefilterExpression, n)
	for i := range kids {
		kids[i] = f.PrefilterTree(r, depth-1, raw)
	}
	and := r.Bool()
	if raw {
		t := bs.PrefilterExpressionOr
		if and {
			t = bs.PrefilterExpressionAnd
		}
		return bs.PrefilterExpression{ExpressionType: t, Children: kids}
	}
	if and {
		return bs.PrefilterAnd(kids...)
	}
	return bs.PrefilterOr(kids...)
}

// Query draws a whole query. Shapes: bloom only, regex only, prefilter only,
// mixes, and the empty query.
func (f *DataFacts) Query(r *core.Rand) *bs.Query {
	q := &bs.Query{}
	shape := r.Intn(12)
	raw := r.Chance(0.3)
	if shape <= 7 {
		e := f.BloomTree(r, r.Range(0, 3), raw)
		q.Bloom = &bs.BloomQuery{Expression: &e}
	}
	if shape == 8 || shape == 9 || (shape <= 7 && r.Chance(0.2)) {
		e := f.RegexTree(r, r.Range(0, 2), raw)
		q.Regex = &bs.RegexQuery{Expression: &e}
	}
	if shape == 10 || r.Chance(0.3) {
		e := f.PrefilterTree(r, r.Range(0, 3), raw)
		q.Prefilter = &bs.QueryPrefilter{Expression: &e}
	}
	if shape == 11 && r.Bool() {
		q.Bloom = &bs.BloomQuery{}
		q.Regex = &bs.RegexQuery{}
		q.Prefilter = &bs.QueryPrefilter{}
	}
	return q
}

func validUTF8Prefix(s string) bool {
	for i := 0; i < len(s); {
		c := s[i]
		n := 1
		switch {
		case c < 0x80:
		case c>>5 == 0x6:
			n = 2
		case c>>4 == 0xE:
			n = 3
		case c>>3 == 0x1E:
			n = 4
		default:
			return false
		}
		if i+n > len(s) {
			return false
		}
		i += n
	}
	return true
}

func regexpQuote(s string) string {
	var sb strings.Builder
	for _, r := range s {
		if strings.ContainsRune(`\.+*?()|[]{}^$`, r) {
			sb.WriteByte('\\')
		}
		sb.WriteRune(r)
	}
	return sb.String()
}

func regexpQuoteClass(s string) string {
	var sb strings.Builder
	for _, r := range s {
		if r == '\\' || r == ']' || r == '[' || r == '^' || r == '-' {
			sb.WriteByte('\\')
		}
		if r < 0x20 {
			continue
		}
		sb.WriteRune(r)
	}
	return sb.String()
}

// PrefilterLeafPartition draws a partition id for synthetic block metadata.
func (f *DataFacts) PrefilterLeafPartition(r *core.Rand) string { return f.partition(r) }
