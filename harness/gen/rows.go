// Package gen holds the seeded generators: rows, engine configurations,
// tokenizers, partition functions and queries derived from the data.
package gen

import (
	"encoding/json"
	"fmt"
	"math"
	"strings"
	"time"
	"unicode"

	"verifharness/core"
)

// Named numeric types: C04 requires them to be indexed like their kinds.
type MyInt int32
type MyUint uint16
type MyFloat float64
type MyInt64 int64

var plainKeys = []string{"level", "service", "msg", "user", "name", "id", "tags", "meta", "host", "status", "a", "b", "c", "x", "data", "items", "k", "v"}

// hostileKeys exercise the path rules: dotted, empty, leading/trailing
// delimiter, gjson metacharacters, unicode, "::"-containing.
var hostileKeys = []string{"a.b", "a.b.c", "", ".", ".x", "x.", "a..b", "*", "?", "a*b", "\\", "a\\.b", "ключ", "键", "a::b", "::", "k::", "#", "@this", "0", "1", "-1", "a b", "A", "É", "K", "user.name", "tags.0", "{", "}", "\"", "a|b", "a.#", "a.#.b"}

var words = []string{"error", "warn", "info", "alice", "bob", "Carol", "DAVE", "eve", "login", "logout", "payment", "Failed", "ok", "timeout", "the", "quick", "brown", "fox", "ÉCOLE", "école", "Straße", "STRASSE", "İstanbul", "ıstanbul", "K", "k", "K", "ǅ", "ǆ", "Ω", "ω", "日本語", "emoji😀", "a::b", "x::", "::y", "a.b", "1", "2", "42", "true", "null", "3.14", "-0", "1e5", "NaN", "foo-bar", "foo_bar", "FOO", "foo", "class", "Boss", "press", "ss"}

// spaceRunes is every unicode.IsSpace rune (strings.Fields boundaries).
var spaceRunes = func() []rune {
	var out []rune
	for r := rune(0); r < 0x3100; r++ {
		if unicode.IsSpace(r) {
			out = append(out, r)
		}
	}
	return out
}()

// Vocab is a scenario's pool of keys and words: small, so that queries hit.
type Vocab struct {
	Keys  []string
	Words []string
	Nums  []string // minmax-able top-level keys
	// BigNums draws boundary-magnitude values for the indexed keys half the time.
	BigNums bool
	// pending is the second half of a membership-key collision waiting for a later row.
	pending *[2]string
}

func NewVocab(r *core.Rand) *Vocab {
	v := &Vocab{}
	nk := r.Range(4, 12)
	for i := 0; i < nk; i++ {
		if r.Chance(0.35) {
			v.Keys = append(v.Keys, core.Pick(r, hostileKeys))
		} else {
			v.Keys = append(v.Keys, core.Pick(r, plainKeys))
		}
	}
	nw := r.Range(5, 20)
	for i := 0; i < nw; i++ {
		if r.Chance(0.8) {
			v.Words = append(v.Words, core.Pick(r, words))
		} else {
			v.Words = append(v.Words, randWord(r))
		}
	}
	v.Nums = []string{"ts", "n", "lat"}
	if r.Chance(0.3) {
		v.Nums = append(v.Nums, core.Pick(r, []string{"a.b", "x", "ключ", "*"}))
	}
	return v
}

func randWord(r *core.Rand) string {
	n := r.Range(1, 8)
	var sb strings.Builder
	alphabet := []rune("abcdefghijklmnopqrstuvwxyzABCDEFGHIJKLMNOPQRSTUVWXYZ0123456789-_éÉßİıΣσς")
	for i := 0; i < n; i++ {
		sb.WriteRune(alphabet[r.Intn(len(alphabet))])
	}
	return sb.String()
}

// Text builds a string value from vocabulary words joined by assorted
// whitespace, sometimes with escapes or invalid UTF-8.
func (v *Vocab) Text(r *core.Rand) string {
	n := r.Range(0, 4)
	if r.Chance(0.05) {
		n = r.Range(5, 40)
	}
	var sb strings.Builder
	if r.Chance(0.1) {
		sb.WriteRune(core.Pick(r, spaceRunes))
	}
	for i := 0; i < n; i++ {
		if i > 0 {
			if r.Chance(0.8) {
				sb.WriteByte(' ')
			} else {
				k := r.Range(1, 3)
				for j := 0; j < k; j++ {
					sb.WriteRune(core.Pick(r, spaceRunes))
				}
			}
		}
		sb.WriteString(core.Pick(r, v.Words))
	}
	if r.Chance(0.05) {
		sb.WriteString(core.Pick(r, []string{"\"q\"", "\\", "\u0000", "\u001f", "</script>", " ", "\xff", "\xc3\x28", "\xed\xa0\x80", "\t\n"}))
	}
	return sb.String()
}

// Number returns a Go numeric value of a random kind at a boundary-heavy
// magnitude.
func Number(r *core.Rand) any {
	ints := []int64{0, 1, -1, 2, 7, 42, 100, 1000, -1000, 1 << 31, -(1 << 31), 1<<53 - 1, 1 << 53, 1<<53 + 1, -(1 << 53) - 1, math.MaxInt64, math.MaxInt64 - 1, math.MinInt64, math.MinInt64 + 1, 1700000000}
	floats := []float64{0, math.Copysign(0, -1), 0.5, -0.5, 1.5, 2.5, -2.5, 3.14, 1e10, 1e18, 9.3e18, -9.3e18, 9223372036854775807, 9223372036854775808, -9223372036854775808, 1e19, -1e19, 1e300, -1e300, 5e-324, math.MaxFloat64, 4611686018427387904.0, 9007199254740993}
	switch r.Intn(16) {
	case 0:
		return int(core.Pick(r, ints))
	case 1:
		return int8(r.Range(-128, 127))
	case 2:
		return int16(r.Range(-32768, 32767))
	case 3:
		return int32(core.Pick(r, ints))
	case 4:
		return core.Pick(r, ints)
	case 5:
		return uint(uint64(core.Pick(r, ints)))
	case 6:
		return uint8(r.Intn(256))
	case 7:
		return uint16(r.Intn(65536))
	case 8:
		return uint32(r.Uint64())
	case 9:
		return core.Pick(r, []uint64{0, 1, math.MaxInt64, math.MaxInt64 + 1, math.MaxUint64, math.MaxUint64 - 1, 1 << 63, 12345})
	case 10:
		return core.Pick(r, []float32{0, 0.5, -0.5, 1.5, 3.25, 1e10, 9.3e18, -9.3e18, 1e19, -1e19, 3e38, -3e38, 1e-45, 16777217})
	case 11:
		return core.Pick(r, floats)
	case 12:
		return MyInt(int32(core.Pick(r, ints)))
	case 13:
		return time.Duration(core.Pick(r, ints))
	case 14:
		return MyFloat(core.Pick(r, floats))
	default:
		if r.Bool() {
			return MyUint(r.Intn(65536))
		}
		return MyInt64(core.Pick(r, ints))
	}
}

// NumberOrInf is Number plus the infinities (not JSON-marshalable, so only for
// direct calls to the public conversion functions).
func NumberOrInf(r *core.Rand) any {
	switch r.Intn(12) {
	case 0:
		return math.Inf(1)
	case 1:
		return math.Inf(-1)
	case 2:
		return float32(math.Inf(1))
	case 3:
		return MyFloat(math.Inf(-1))
	}
	return Number(r)
}

// smallNumber keeps values in a narrow band so ranges of different blocks
// overlap and prefilters are selective but not trivially so.
func smallNumber(r *core.Rand) any {
	base := int64(r.Range(-50, 150))
	switch r.Intn(8) {
	case 0:
		return int(base)
	case 1:
		return base
	case 2:
		return float64(base) + core.Pick(r, []float64{0, 0.25, 0.5, 0.75})
	case 3:
		return int32(base)
	case 4:
		if base < 0 {
			base = -base
		}
		return uint64(base)
	case 5:
		return MyInt(base)
	case 6:
		return time.Duration(base)
	default:
		return MyFloat(float64(base) + 0.5)
	}
}

var rawSnippets = []string{
	`{"a":1,"a":2}`, `{"k":"v","k":"w","z":[1,2]}`, `[1,1.0,1E5,-0,0.1e-3]`, `1.0`, `-0`, `1E5`, `12345678901234567890`, `0.1000`,
	`{"nested":{"deep":[{"x":null},{"x":"y z"}]}}`, `"raw string"`, `"é́"`, `"😀"`, `null`, `true`, `[]`, `{}`, `[[],{}]`,
	`{"":{"":1}}`, `{"a.b":{"c.d":"E f"}}`, `  { "sp" :  [ 1 , 2 ] }  `, `1e400`, `-1e400`, `{"u":"K"}`,
}

// Value builds a random JSON-marshalable value.
func (v *Vocab) Value(r *core.Rand, depth int) any {
	k := r.Intn(100)
	switch {
	case k < 38:
		return v.Text(r)
	case k < 52:
		return Number(r)
	case k < 57:
		return r.Bool()
	case k < 61:
		return nil
	case k < 64:
		return json.Number(core.Pick(r, []string{"1", "1.0", "1e5", "1E5", "6.02E23", "1E+5", "2.5E-3", "-0", "12345678901234567890", "0.5"}))
	case k < 68:
		return json.RawMessage(core.Pick(r, rawSnippets))
	case k < 84 && depth > 0:
		return v.Object(r, depth-1, r.Range(0, 4))
	case k < 100 && depth > 0:
		n := r.Range(0, 4)
		arr := make([]any, n)
		for i := range arr {
			arr[i] = v.Value(r, depth-1)
		}
		return arr
	}
	return v.Text(r)
}

func (v *Vocab) Object(r *core.Rand, depth, n int) map[string]any {
	m := map[string]any{}
	for i := 0; i < n; i++ {
		m[core.Pick(r, v.Keys)] = v.Value(r, depth)
	}
	return m
}

// Row builds one row with a unique _vid. Numeric top-level keys come from
// v.Nums so minmax indexes have something to index.
func (v *Vocab) Row(r *core.Rand, vid string) map[string]any {
	row := v.Object(r, r.Range(0, 4), r.Range(0, 6))
	for _, k := range v.Nums {
		if v.BigNums && r.Bool() {
			row[k] = Number(r)
			continue
		}
		switch r.Intn(10) {
		case 0: // absent
			delete(row, k)
		case 1:
			row[k] = Number(r)
		case 2:
			row[k] = v.Text(r) // non-numeric under an indexed key
		default:
			row[k] = smallNumber(r)
		}
	}
	// Membership-key collisions: the field:token key is path + "::" + token, which is not
	// injective -- (path "k::q", token "t") and (path "k", token "q::t") share the key
	// "k::q::t". Both halves are planted, in one row or in consecutive rows (same block or
	// neighbouring blocks of one file), so that anything that treats "pair already seen" as
	// "token/field already seen" loses an entry.
	if v.pending != nil && r.Chance(0.7) {
		row[v.pending[0]] = v.pending[1]
		v.pending = nil
	}
	if r.Chance(0.06) {
		k := core.Pick(r, []string{"svc", "k", "a", "mod"})
		q := core.Pick(r, []string{"mod", "q", "x1", "b"})
		t := "t" + strings.ToLower(fmt.Sprintf("%x", r.Intn(1<<16)))
		first, second := [2]string{k + "::" + q, t}, [2]string{k, q + "::" + t}
		if r.Bool() {
			first, second = second, first
		}
		row[first[0]] = first[1]
		if r.Bool() {
			row[second[0]] = second[1]
		} else {
			v.pending = &second
		}
	}
	if r.Chance(0.03) {
		// an oversized row
		row["blob"] = strings.Repeat(core.Pick(r, v.Words)+" ", r.Range(200, 3000))
	}
	row["_vid"] = vid
	return row
}

func Vid(scope string, n int) string { return fmt.Sprintf("v%s_%d", scope, n) }
