package extfmt

import (
	"bytes"

	"github.com/bits-and-blooms/bloom/v3"
	bs "github.com/danthegoodman1/bloomsearch"
)

// ExtBlock is one block of an externally written file.
type ExtBlock struct {
	Rows      [][]byte // marshaled rows
	Codec     string
	Partition string
	MinMax    map[string]bs.MinMaxIndex
	// Entries to index; nil Filters => the block has no filter section.
	Fields, Tokens, Pairs []string
	NoFilters             bool
	DropFilter            int // 1..3 drops one of the three filters (absent, fail-open); 0 keeps all
	FPR                   float64
	PadSection            int // extra zero bytes after this block's section inside the region (gap)
}

// ExtOpts steers the layout.
type ExtOpts struct {
	NoFileFilters   bool
	ReverseMetadata bool // list blocks in metadata in reverse offset order
	FPR             float64
	// ReverseSections lays the filter sections out inside the region in the reverse of the
	// block (row data) order; every block still points at its own section.
	ReverseSections bool
}

func buildFilter(entries []string, p float64) *bloom.BloomFilter {
	n := len(entries)
	if n < 1 {
		n = 1
	}
	f := bloom.NewWithEstimates(uint(n), p)
	for _, e := range entries {
		f.AddString(e)
	}
	return f
}

// BuildFile lays a file out as FILE_FORMAT.md documents (row data, block
// filter region, then the footer through the public WriteFileFooter) and
// returns its bytes and the metadata a MetaStore would hold.
func BuildFile(blocks []ExtBlock, o ExtOpts) ([]byte, *bs.FileMetadata, error) {
	var out bytes.Buffer
	md := &bs.FileMetadata{BloomFalsePositiveRate: o.FPR}
	var sections [][]byte
	allF, allT, allP := map[string]struct{}{}, map[string]struct{}{}, map[string]struct{}{}
	for _, b := range blocks {
		plain := JoinRows(b.Rows)
		disk, err := Compress(b.Codec, plain)
		if err != nil {
			return nil, nil, err
		}
		codec := b.Codec
		if codec == "" {
			codec = "none"
		}
		bm := bs.DataBlockMetadata{
			RowDataOffset: out.Len(), RowDataSize: len(disk), Rows: len(b.Rows),
			PartitionID: b.Partition, MinMaxIndexes: b.MinMax, Compression: bs.CompressionType(codec),
			UncompressedSize: len(plain), RowDataHash: CRC32C(disk), HasRowDataHash: true,
			BloomEntryCounts:       bs.BloomEntryCounts{Fields: len(b.Fields), Tokens: len(b.Tokens), FieldTokens: len(b.Pairs)},
			BloomFalsePositiveRate: b.FPR,
		}
		out.Write(disk)
		var sec []byte
		if !b.NoFilters {
			fs := [3]*bloom.BloomFilter{buildFilter(b.Fields, b.FPR), buildFilter(b.Tokens, b.FPR), buildFilter(b.Pairs, b.FPR)}
			if b.DropFilter >= 1 && b.DropFilter <= 3 {
				fs[b.DropFilter-1] = nil
			}
			sec = EncodeSection(fs)
		}
		sections = append(sections, sec)
		md.DataBlocks = append(md.DataBlocks, bm)
		for _, e := range b.Fields {
			allF[e] = struct{}{}
		}
		for _, e := range b.Tokens {
			allT[e] = struct{}{}
		}
		for _, e := range b.Pairs {
			allP[e] = struct{}{}
		}
	}
	md.BlockFilterRegionOffset = out.Len()
	for k := range sections {
		i := k
		if o.ReverseSections {
			i = len(sections) - 1 - k
		}
		sec := sections[i]
		if len(sec) > 0 {
			md.DataBlocks[i].BloomFilterOffset = out.Len()
			md.DataBlocks[i].BloomFilterSize = len(sec)
			out.Write(sec)
		}
		if pad := blocks[i].PadSection; pad > 0 {
			out.Write(make([]byte, pad))
		}
	}
	md.BlockFilterRegionSize = out.Len() - md.BlockFilterRegionOffset
	if !o.NoFileFilters {
		keys := func(m map[string]struct{}) []string {
			ks := make([]string, 0, len(m))
			for k := range m {
				ks = append(ks, k)
			}
			return ks
		}
		md.BloomFilters = bs.BloomFilters{FieldBloomFilter: buildFilter(keys(allF), o.FPR), TokenBloomFilter: buildFilter(keys(allT), o.FPR), FieldTokenBloomFilter: buildFilter(keys(allP), o.FPR)}
		md.BloomEntryCounts = bs.BloomEntryCounts{Fields: len(allF), Tokens: len(allT), FieldTokens: len(allP)}
	}
	if o.ReverseMetadata {
		for i, j := 0, len(md.DataBlocks)-1; i < j; i, j = i+1, j-1 {
			md.DataBlocks[i], md.DataBlocks[j] = md.DataBlocks[j], md.DataBlocks[i]
		}
	}
	if err := bs.WriteFileFooter(&out, md); err != nil {
		return nil, nil, err
	}
	return out.Bytes(), md, nil
}
