// Package extfmt is the harness's independent reader/writer of the bloom file
// format, written from FILE_FORMAT.md: footer framing, metadata JSON, filter
// sections, row data blocks. It never calls the package's own parser.
package extfmt

import (
	"bytes"
	"encoding/binary"
	"encoding/json"
	"errors"
	"fmt"
	"hash/crc32"
	"io"

	"github.com/bits-and-blooms/bloom/v3"
	"github.com/klauspost/compress/snappy"
	"github.com/klauspost/compress/zstd"
)

var castagnoli = crc32.MakeTable(crc32.Castagnoli)

func CRC32C(b []byte) uint32 { return crc32.Checksum(b, castagnoli) }

const Magic = "BLOMSRCH"
const FooterTail = 4 + 4 + 4 + 8

type Counts struct {
	Fields      int
	Tokens      int
	FieldTokens int
}

type MinMax struct {
	Min int64
	Max int64
}

// Block mirrors the documented per-block metadata.
type Block struct {
	RowDataOffset          int
	RowDataSize            int
	Rows                   int
	BloomFilterOffset      int
	BloomFilterSize        int
	MinMaxIndexes          map[string]MinMax `json:",omitempty"`
	PartitionID            string            `json:",omitempty"`
	Compression            string            `json:",omitempty"`
	UncompressedSize       int               `json:",omitempty"`
	RowDataHash            uint32            `json:",omitempty"`
	HasRowDataHash         bool              `json:",omitempty"`
	BloomEntryCounts       Counts            `json:",omitzero"`
	BloomFalsePositiveRate float64
}

// Meta mirrors the documented metadata JSON.
type Meta struct {
	BloomFalsePositiveRate  float64
	BloomEntryCounts        Counts `json:",omitzero"`
	BlockFilterRegionOffset int
	BlockFilterRegionSize   int
	FileFilterSectionSize   int
	DataBlocks              []Block
}

// Footer is the parsed tail of a file.
type Footer struct {
	FileSize      int64
	Version       uint32
	MetaLen       uint32
	MetaCRC       uint32
	MetaOffset    int64
	MetaJSON      []byte
	Meta          Meta
	FilterSection []byte // file-level filter section bytes (may be empty)
}

// ParseFooter reads the footer from the end of the file.
func ParseFooter(b []byte) (*Footer, error) {
	n := int64(len(b))
	if n < FooterTail {
		return nil, errors.New("too small")
	}
	tail := b[n-FooterTail:]
	if string(tail[12:]) != Magic {
		return nil, errors.New("bad magic")
	}
	f := &Footer{FileSize: n}
	f.MetaCRC = binary.LittleEndian.Uint32(tail[0:4])
	f.MetaLen = binary.LittleEndian.Uint32(tail[4:8])
	f.Version = binary.LittleEndian.Uint32(tail[8:12])
	f.MetaOffset = n - FooterTail - int64(f.MetaLen)
	if f.MetaOffset < 0 {
		return nil, errors.New("metadata length exceeds file")
	}
	f.MetaJSON = b[f.MetaOffset : n-FooterTail]
	if CRC32C(f.MetaJSON) != f.MetaCRC {
		return nil, errors.New("metadata crc mismatch")
	}
	if f.Version != 3 {
		return nil, fmt.Errorf("version %d", f.Version)
	}
	if err := json.Unmarshal(f.MetaJSON, &f.Meta); err != nil {
		return nil, err
	}
	fs := int64(f.Meta.FileFilterSectionSize)
	if fs < 0 || fs > f.MetaOffset {
		return nil, errors.New("bad file filter section size")
	}
	f.FilterSection = b[f.MetaOffset-fs : f.MetaOffset]
	return f, nil
}

// Section is a parsed filter section.
type Section struct {
	Flags  byte
	Raw    [3][]byte // raw filter encodings (nil when absent): field, token, field:token
	Filter [3]*bloom.BloomFilter
}

// ParseSection verifies and decodes a filter section.
func ParseSection(b []byte) (*Section, error) {
	if len(b) < 5 {
		return nil, errors.New("section too small")
	}
	payload := b[:len(b)-4]
	if CRC32C(payload) != binary.LittleEndian.Uint32(b[len(b)-4:]) {
		return nil, errors.New("section crc mismatch")
	}
	s := &Section{Flags: payload[0]}
	if s.Flags&^7 != 0 {
		return nil, errors.New("unknown flags")
	}
	rest := payload[1:]
	for i := 0; i < 3; i++ {
		if s.Flags&(1<<uint(i)) == 0 {
			continue
		}
		if len(rest) < 4 {
			return nil, errors.New("truncated length")
		}
		l := binary.LittleEndian.Uint32(rest[:4])
		rest = rest[4:]
		if uint64(l) > uint64(len(rest)) {
			return nil, errors.New("filter length exceeds section")
		}
		s.Raw[i] = rest[:l]
		f := &bloom.BloomFilter{}
		if _, err := f.ReadFrom(bytes.NewReader(rest[:l])); err != nil {
			return nil, err
		}
		s.Filter[i] = f
		rest = rest[l:]
	}
	if len(rest) != 0 {
		return nil, errors.New("trailing bytes")
	}
	return s, nil
}

// EncodeSection frames up to three filters (nil = absent).
func EncodeSection(fs [3]*bloom.BloomFilter) []byte {
	var buf bytes.Buffer
	var flags byte
	for i, f := range fs {
		if f != nil {
			flags |= 1 << uint(i)
		}
	}
	buf.WriteByte(flags)
	for _, f := range fs {
		if f == nil {
			continue
		}
		var fb bytes.Buffer
		f.WriteTo(&fb)
		var l [4]byte
		binary.LittleEndian.PutUint32(l[:], uint32(fb.Len()))
		buf.Write(l[:])
		buf.Write(fb.Bytes())
	}
	var c [4]byte
	binary.LittleEndian.PutUint32(c[:], CRC32C(buf.Bytes()))
	buf.Write(c[:])
	return buf.Bytes()
}

// Decompress decodes a block's on-disk bytes with the declared codec.
func Decompress(codec string, b []byte) ([]byte, error) {
	switch codec {
	case "", "none":
		return b, nil
	case "snappy":
		return io.ReadAll(snappy.NewReader(bytes.NewReader(b)))
	case "zstd":
		d, err := zstd.NewReader(bytes.NewReader(b))
		if err != nil {
			return nil, err
		}
		defer d.Close()
		return io.ReadAll(d)
	}
	return nil, fmt.Errorf("unknown codec %q", codec)
}

// Compress encodes row data with a codec (external writer).
func Compress(codec string, b []byte) ([]byte, error) {
	switch codec {
	case "", "none":
		return b, nil
	case "snappy":
		var buf bytes.Buffer
		w := snappy.NewBufferedWriter(&buf)
		w.Write(b)
		w.Close()
		return buf.Bytes(), nil
	case "zstd":
		var buf bytes.Buffer
		w, err := zstd.NewWriter(&buf)
		if err != nil {
			return nil, err
		}
		w.Write(b)
		w.Close()
		return buf.Bytes(), nil
	}
	return nil, fmt.Errorf("unknown codec %q", codec)
}

// SplitRows iterates length-prefixed rows.
func SplitRows(b []byte) ([][]byte, error) {
	var out [][]byte
	for len(b) > 0 {
		if len(b) < 4 {
			return nil, errors.New("truncated prefix")
		}
		l := binary.LittleEndian.Uint32(b[:4])
		b = b[4:]
		if uint64(l) > uint64(len(b)) {
			return nil, errors.New("row exceeds data")
		}
		out = append(out, b[:l])
		b = b[l:]
	}
	return out, nil
}

// JoinRows frames rows with uint32 LE length prefixes.
func JoinRows(rows [][]byte) []byte {
	var buf bytes.Buffer
	for _, r := range rows {
		var l [4]byte
		binary.LittleEndian.PutUint32(l[:], uint32(len(r)))
		buf.Write(l[:])
		buf.Write(r)
	}
	return buf.Bytes()
}

// FilterBytes is the binary encoding of a filter (for bit-equality checks).
func FilterBytes(f *bloom.BloomFilter) []byte {
	if f == nil {
		return nil
	}
	var b bytes.Buffer
	f.WriteTo(&b)
	return b.Bytes()
}
