package main

import (
	"fmt"
	"os"
	"strconv"

	"verifharness/mon"
)

func main() {
	args := os.Args[1:]
	if len(args) >= 7 && args[0] == "--worker" {
		seed, _ := strconv.ParseInt(args[3], 10, 64)
		shard, _ := strconv.Atoi(args[4])
		shards, _ := strconv.Atoi(args[5])
		os.Exit(mon.Worker(args[1], args[2], seed, shard, shards, args[6]))
	}
	if len(args) >= 1 && args[0] == "--aux" {
		os.Exit(mon.Aux(args[1:]))
	}
	if len(args) < 2 {
		fmt.Fprintln(os.Stderr, "usage: vcheck <ID> <quick|thorough>")
		os.Exit(2)
	}
	os.Exit(mon.Main(args[0], args[1]))
}
