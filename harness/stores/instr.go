package stores

import (
	"context"
	"errors"
	"fmt"
	"io"
	"iter"
	"runtime"
	"sync"
	"sync/atomic"
	"time"

	bs "github.com/danthegoodman1/bloomsearch"
)

// Clock is the global logical clock shared by every monitor of a case.
type Clock struct{ t atomic.Int64 }

func (c *Clock) Tick() int64 { return c.t.Add(1) }
func (c *Clock) Now() int64  { return c.t.Load() }

// ErrInjected is the sentinel wrapped by every injected failure.
var ErrInjected = errors.New("injected store failure")

// Call is one logged store call.
type Call struct {
	Seq    int    `json:"seq"`
	Kind   string `json:"kind"`
	N      int    `json:"n"` // index among calls of this kind
	Handle int    `json:"handle,omitempty"`
	File   string `json:"file,omitempty"`
	Off    int64  `json:"off,omitempty"`
	Len    int64  `json:"len,omitempty"`
	Req    int64  `json:"req,omitempty"` // requested length (Len is what was transferred)
	Start  int64  `json:"start"`
	End    int64  `json:"end"`
	Err    string `json:"err,omitempty"`
	Inj    bool   `json:"injected,omitempty"`
	Extra  string `json:"extra,omitempty"`
}

// Action is what a plan decides for a call about to happen.
type Action struct {
	Fail       bool          // return an injected error
	PostEffect bool          // perform the effect, then return the error
	Delay      time.Duration // sleep before the call
	Gate       *Gate         // block on the gate before the call
	Tag        string        // free-form label for the injected error
	// Err, when set together with Fail, is the error the call returns instead of the generic
	// injected one (e.g. one wrapping the call's context error: a store that gave up because its
	// caller's context ended, with nothing applied).
	Err error
}

// Gate blocks callers until opened. With HonorCtx the wait also ends when the
// call's context is done (returning the context error); without it the store
// is "wedged" and ignores ctx.
type Gate struct {
	ch       chan struct{}
	once     sync.Once
	HonorCtx bool
	Waiting  atomic.Int32
	Passed   atomic.Int32
}

func NewGate(honorCtx bool) *Gate { return &Gate{ch: make(chan struct{}), HonorCtx: honorCtx} }
func (g *Gate) Open()             { g.once.Do(func() { close(g.ch) }) }
func (g *Gate) IsOpen() bool {
	select {
	case <-g.ch:
		return true
	default:
		return false
	}
}

func (g *Gate) wait(ctx context.Context) error {
	g.Waiting.Add(1)
	defer g.Waiting.Add(-1)
	defer g.Passed.Add(1)
	if g.HonorCtx && ctx != nil {
		select {
		case <-g.ch:
			return nil
		case <-ctx.Done():
			return ctx.Err()
		}
	}
	<-g.ch
	return nil
}

// Plan decides, for each call, whether to delay, gate or fail it. Decide runs
// under the log lock with the call's kind and per-kind index already set.
type Plan struct {
	Decide func(c *Call) Action
}

// Log is the shared call log of a case (DataStore and MetaStore wrappers
// append to the same log so positions are global).
type Log struct {
	mu      sync.Mutex
	Calls   []Call
	perKind map[string]int
	Clock   *Clock
	Plan    *Plan
	// Anomalies are contract breaches observed by the wrappers themselves
	// (handle used concurrently, after close, closed twice ...).
	Anomalies []string
	// OnCall, if set, observes each finished call (outside the lock).
	OnCall func(c Call)
}

func NewLog(clock *Clock) *Log { return &Log{perKind: map[string]int{}, Clock: clock} }

func (l *Log) anomaly(format string, a ...any) {
	l.mu.Lock()
	if len(l.Anomalies) < 100 {
		l.Anomalies = append(l.Anomalies, fmt.Sprintf(format, a...))
	}
	l.mu.Unlock()
}

// begin logs the start of a call and returns its index and the plan's action.
func (l *Log) begin(kind string, handle int, file string, off, length int64) (int, Action) {
	l.mu.Lock()
	c := Call{Seq: len(l.Calls), Kind: kind, N: l.perKind[kind], Handle: handle, File: file, Off: off, Len: length, Req: length, Start: l.Clock.Tick(), End: -1}
	l.perKind[kind]++
	var act Action
	if l.Plan != nil && l.Plan.Decide != nil {
		act = l.Plan.Decide(&c)
	}
	if act.Fail {
		c.Inj = true
	}
	l.Calls = append(l.Calls, c)
	l.mu.Unlock()
	return c.Seq, act
}

func (l *Log) end(seq int, err error, n int64) {
	l.mu.Lock()
	c := &l.Calls[seq]
	c.End = l.Clock.Tick()
	if err != nil {
		c.Err = err.Error()
	}
	if n >= 0 {
		c.Len = n
	}
	cp := *c
	cb := l.OnCall
	l.mu.Unlock()
	if cb != nil {
		cb(cp)
	}
}

// Snapshot copies the log.
func (l *Log) Snapshot() []Call {
	l.mu.Lock()
	defer l.mu.Unlock()
	return append([]Call(nil), l.Calls...)
}

func (l *Log) Count(kind string) int {
	l.mu.Lock()
	defer l.mu.Unlock()
	return l.perKind[kind]
}

func (l *Log) AnomalyList() []string {
	l.mu.Lock()
	defer l.mu.Unlock()
	return append([]string(nil), l.Anomalies...)
}

func injErr(kind string, seq int, tag string) error {
	return fmt.Errorf("%w: %s#%d%s", ErrInjected, kind, seq, tag)
}

// pre applies delay and gate; returns a non-nil error if the gate wait ended
// by context.
func pre(ctx context.Context, act Action) error {
	if act.Delay > 0 {
		time.Sleep(act.Delay)
	} else if act.Delay < 0 {
		runtime.Gosched()
	}
	if act.Gate != nil {
		return act.Gate.wait(ctx)
	}
	return nil
}

// InstrDataStore wraps any DataStore.
type InstrDataStore struct {
	Inner bs.DataStore
	Log   *Log

	// HideAbort makes writers not expose Abort even if the inner one has it.
	HideAbort bool

	nextHandle    atomic.Int64
	InflightReads atomic.Int64
	MaxInflight   atomic.Int64
	// ReadsHonorCtx makes read handles behave like object-store streams: once the context their
	// OpenFile call received is done, Read fails with that context's error.
	ReadsHonorCtx atomic.Bool
	// ReadDelay makes every Read sleep (to overlap reads for the gauge).
	ReadDelay func() time.Duration

	hmu     sync.Mutex
	Handles map[int]*HandleInfo
}

// HandleInfo is the life-cycle record of one read handle.
type HandleInfo struct {
	ID        int
	File      string
	OpenTick  int64
	Closes    int
	// CloseReturned counts Close calls that have returned (a Close can be slow: the plan may
	// delay it), so "closed" can be told from "someone has begun closing it".
	CloseReturned int
	OpsAfter  int // operations after close
	Overlaps  int // concurrent uses detected
	LastTick  int64
	CloseTick int64
}

func NewInstrDataStore(inner bs.DataStore, log *Log) *InstrDataStore {
	return &InstrDataStore{Inner: inner, Log: log, Handles: map[int]*HandleInfo{}}
}

type instrWriter struct {
	s     *InstrDataStore
	inner io.WriteCloser
	id    int
	file  string
	// ctx is the context CreateFile was called with: a gate that honours contexts releases a
	// Write/Close/Abort of this writer when it is done (an upload stream bound to its request).
	ctx context.Context
	// plain field: two goroutines touching one writer is a data race the race
	// detector reports (the DataStore contract promises one at a time).
	shadow int
}

type instrWriterAbort struct{ *instrWriter }

func (w *instrWriter) Write(p []byte) (int, error) {
	w.shadow++
	seq, act := w.s.Log.begin("Write", w.id, w.file, 0, int64(len(p)))
	if err := pre(w.ctx, act); err != nil {
		w.s.Log.end(seq, err, 0)
		return 0, err
	}
	if act.Fail && !act.PostEffect {
		err := injErr("Write", seq, act.Tag)
		w.s.Log.end(seq, err, 0)
		return 0, err
	}
	n, err := w.inner.Write(p)
	if act.Fail && err == nil {
		err = injErr("Write", seq, act.Tag)
	}
	w.s.Log.end(seq, err, int64(n))
	return n, err
}

func (w *instrWriter) Close() error {
	w.shadow++
	seq, act := w.s.Log.begin("Close", w.id, w.file, 0, 0)
	if err := pre(w.ctx, act); err != nil {
		w.s.Log.end(seq, err, -1)
		return err
	}
	if act.Fail && !act.PostEffect {
		err := injErr("Close", seq, act.Tag)
		w.s.Log.end(seq, err, -1)
		return err
	}
	err := w.inner.Close()
	if act.Fail && err == nil {
		err = injErr("Close", seq, act.Tag)
	}
	w.s.Log.end(seq, err, -1)
	return err
}

func (w instrWriterAbort) Abort() error {
	w.shadow++
	seq, act := w.s.Log.begin("Abort", w.id, w.file, 0, 0)
	if err := pre(w.ctx, act); err != nil {
		w.s.Log.end(seq, err, -1)
		return err
	}
	if act.Fail && !act.PostEffect {
		err := injErr("Abort", seq, act.Tag)
		w.s.Log.end(seq, err, -1)
		return err
	}
	err := w.inner.(interface{ Abort() error }).Abort()
	if act.Fail && err == nil {
		err = injErr("Abort", seq, act.Tag)
	}
	w.s.Log.end(seq, err, -1)
	return err
}

func (s *InstrDataStore) CreateFile(ctx context.Context) (io.WriteCloser, []byte, error) {
	seq, act := s.Log.begin("CreateFile", 0, "", 0, 0)
	if err := pre(ctx, act); err != nil {
		s.Log.end(seq, err, -1)
		return nil, nil, err
	}
	if act.Fail {
		err := injErr("CreateFile", seq, act.Tag)
		s.Log.end(seq, err, -1)
		return nil, nil, err
	}
	w, ptr, err := s.Inner.CreateFile(ctx)
	if err != nil {
		s.Log.end(seq, err, -1)
		return nil, nil, err
	}
	id := int(s.nextHandle.Add(1))
	s.Log.mu.Lock()
	s.Log.Calls[seq].File = string(ptr)
	s.Log.Calls[seq].Handle = id
	s.Log.mu.Unlock()
	s.Log.end(seq, nil, -1)
	iw := &instrWriter{s: s, inner: w, id: id, file: string(ptr), ctx: ctx}
	if _, ok := w.(interface{ Abort() error }); ok && !s.HideAbort {
		return instrWriterAbort{iw}, ptr, nil
	}
	return iw, ptr, nil
}

type instrReader struct {
	s      *InstrDataStore
	inner  io.ReadSeekCloser
	info   *HandleInfo
	pos    int64
	inUse  atomic.Int32
	closed atomic.Bool
	shadow int // plain: race-detector bait for concurrent use of one handle
	ctx    context.Context
}

func (r *instrReader) enter(op string) {
	if r.inUse.Add(1) != 1 {
		r.s.hmu.Lock()
		r.info.Overlaps++
		r.s.hmu.Unlock()
		r.s.Log.anomaly("handle %d (%s): %s overlapped another operation", r.info.ID, r.info.File, op)
	}
	if r.closed.Load() {
		r.s.hmu.Lock()
		r.info.OpsAfter++
		r.s.hmu.Unlock()
		r.s.Log.anomaly("handle %d (%s): %s after close", r.info.ID, r.info.File, op)
	}
	r.shadow++
}

func (r *instrReader) leave() { r.inUse.Add(-1) }

func (r *instrReader) Read(p []byte) (int, error) {
	r.enter("Read")
	defer r.leave()
	seq, act := r.s.Log.begin("Read", r.info.ID, r.info.File, r.pos, int64(len(p)))
	cur := r.s.InflightReads.Add(1)
	for {
		m := r.s.MaxInflight.Load()
		if cur <= m || r.s.MaxInflight.CompareAndSwap(m, cur) {
			break
		}
	}
	defer r.s.InflightReads.Add(-1)
	if r.s.ReadDelay != nil {
		if d := r.s.ReadDelay(); d > 0 {
			time.Sleep(d)
		}
	}
	if err := pre(nil, act); err != nil {
		r.s.Log.end(seq, err, 0)
		return 0, err
	}
	if r.s.ReadsHonorCtx.Load() && r.ctx != nil && r.ctx.Err() != nil {
		// object-store style handle: a read under a context that is done fails with its error
		err := r.ctx.Err()
		r.s.Log.end(seq, err, 0)
		return 0, err
	}
	if act.Fail {
		err := injErr("Read", seq, act.Tag)
		r.s.Log.end(seq, err, 0)
		return 0, err
	}
	n, err := r.inner.Read(p)
	r.pos += int64(n)
	var logErr error
	if err != nil && err != io.EOF {
		logErr = err
	}
	r.s.Log.end(seq, logErr, int64(n))
	return n, err
}

func (r *instrReader) Seek(off int64, whence int) (int64, error) {
	r.enter("Seek")
	defer r.leave()
	seq, act := r.s.Log.begin("Seek", r.info.ID, r.info.File, off, int64(whence))
	if err := pre(nil, act); err != nil {
		r.s.Log.end(seq, err, -1)
		return 0, err
	}
	if act.Fail {
		err := injErr("Seek", seq, act.Tag)
		r.s.Log.end(seq, err, -1)
		return 0, err
	}
	n, err := r.inner.Seek(off, whence)
	if err == nil {
		r.pos = n
	}
	r.s.Log.end(seq, err, -1)
	return n, err
}

func (r *instrReader) Close() error {
	r.enter("RClose")
	defer r.leave()
	seq, act := r.s.Log.begin("RClose", r.info.ID, r.info.File, 0, 0)
	r.s.hmu.Lock()
	r.info.Closes++
	if r.info.Closes > 1 {
		r.s.Log.anomaly("handle %d (%s): closed %d times", r.info.ID, r.info.File, r.info.Closes)
	}
	r.info.CloseTick = r.s.Log.Clock.Now()
	r.s.hmu.Unlock()
	r.closed.Store(true)
	pre(nil, Action{Delay: act.Delay}) // a slow Close (never gated)
	err := r.inner.Close()
	if act.Fail && err == nil {
		// the handle is closed for real; the store reports a failure all the same
		err = injErr("RClose", seq, act.Tag)
	}
	r.s.hmu.Lock()
	r.info.CloseReturned++
	r.s.hmu.Unlock()
	r.s.Log.end(seq, err, -1)
	return err
}

func (s *InstrDataStore) OpenFile(ctx context.Context, ptr []byte) (io.ReadSeekCloser, error) {
	seq, act := s.Log.begin("OpenFile", 0, string(ptr), 0, 0)
	if err := pre(ctx, act); err != nil {
		s.Log.end(seq, err, -1)
		return nil, err
	}
	if act.Fail {
		err := injErr("OpenFile", seq, act.Tag)
		s.Log.end(seq, err, -1)
		return nil, err
	}
	h, err := s.Inner.OpenFile(ctx, ptr)
	if err != nil {
		s.Log.end(seq, err, -1)
		return nil, err
	}
	id := int(s.nextHandle.Add(1))
	info := &HandleInfo{ID: id, File: string(ptr), OpenTick: s.Log.Clock.Now()}
	s.hmu.Lock()
	s.Handles[id] = info
	s.hmu.Unlock()
	s.Log.mu.Lock()
	s.Log.Calls[seq].Handle = id
	s.Log.mu.Unlock()
	s.Log.end(seq, nil, -1)
	return &instrReader{s: s, inner: h, info: info, ctx: ctx}, nil
}

func (s *InstrDataStore) TombstoneFile(ctx context.Context, ptr []byte) error {
	seq, act := s.Log.begin("TombstoneFile", 0, string(ptr), 0, 0)
	if err := pre(ctx, act); err != nil {
		s.Log.end(seq, err, -1)
		return err
	}
	if act.Fail && !act.PostEffect {
		err := injErr("TombstoneFile", seq, act.Tag)
		s.Log.end(seq, err, -1)
		return err
	}
	err := s.Inner.TombstoneFile(ctx, ptr)
	if act.Fail && err == nil {
		err = injErr("TombstoneFile", seq, act.Tag)
	}
	s.Log.end(seq, err, -1)
	return err
}

// HandleSnapshot copies the handle table.
func (s *InstrDataStore) HandleSnapshot() []HandleInfo {
	s.hmu.Lock()
	defer s.hmu.Unlock()
	out := make([]HandleInfo, 0, len(s.Handles))
	for _, h := range s.Handles {
		out = append(out, *h)
	}
	return out
}

// InstrMetaStore wraps any MetaStore.
type InstrMetaStore struct {
	Inner bs.MetaStore
	Log   *Log

	ActiveIters atomic.Int64
	// Applied records, per Update call seq, whether the inner Update ran and
	// returned nil.
	amu     sync.Mutex
	Applied map[int]bool
	Updates []UpdateRec

	// BeforeUpdate, if set, observes an Update's operations before they run.
	BeforeUpdate func(writes []bs.WriteOperation, deletes []bs.DeleteOperation)
}

// UpdateRec is the content of one Update call.
type UpdateRec struct {
	Seq     int      `json:"seq"`
	Writes  []string `json:"writes"`
	Deletes []string `json:"deletes"`
	Applied bool     `json:"applied"`
	Start   int64    `json:"start"`
	End     int64    `json:"end"`
}

func NewInstrMetaStore(inner bs.MetaStore, log *Log) *InstrMetaStore {
	return &InstrMetaStore{Inner: inner, Log: log, Applied: map[int]bool{}}
}

func (m *InstrMetaStore) Update(ctx context.Context, writes []bs.WriteOperation, deletes []bs.DeleteOperation) error {
	if m.BeforeUpdate != nil {
		m.BeforeUpdate(writes, deletes)
	}
	seq, act := m.Log.begin("Update", 0, "", int64(len(writes)), int64(len(deletes)))
	rec := UpdateRec{Seq: seq, Start: m.Log.Clock.Now()}
	for _, w := range writes {
		rec.Writes = append(rec.Writes, string(w.FilePointerBytes))
	}
	for _, d := range deletes {
		rec.Deletes = append(rec.Deletes, string(d.FilePointerBytes))
	}
	finish := func(err error, applied bool) error {
		rec.Applied = applied
		rec.End = m.Log.Clock.Tick()
		m.amu.Lock()
		m.Applied[seq] = applied
		m.Updates = append(m.Updates, rec)
		m.amu.Unlock()
		m.Log.end(seq, err, -1)
		return err
	}
	if err := pre(ctx, act); err != nil {
		return finish(err, false)
	}
	if act.Fail {
		// Update's contract is atomic: an error means nothing was applied.
		if act.Err != nil {
			return finish(act.Err, false)
		}
		return finish(injErr("Update", seq, act.Tag), false)
	}
	err := m.Inner.Update(ctx, writes, deletes)
	return finish(err, err == nil)
}

func (m *InstrMetaStore) UpdateRecs() []UpdateRec {
	m.amu.Lock()
	defer m.amu.Unlock()
	return append([]UpdateRec(nil), m.Updates...)
}

func (m *InstrMetaStore) GetMaybeFilesForQuery(ctx context.Context, q *bs.QueryPrefilter) iter.Seq2[bs.MaybeFile, error] {
	inner := m.Inner.GetMaybeFilesForQuery(ctx, q)
	return func(yield func(bs.MaybeFile, error) bool) {
		seq, act := m.Log.begin("Iter", 0, "", 0, 0)
		m.ActiveIters.Add(1)
		defer func() {
			m.ActiveIters.Add(-1)
			m.Log.end(seq, nil, -1)
		}()
		if err := pre(ctx, act); err != nil {
			return
		}
		if act.Fail {
			yield(bs.MaybeFile{}, injErr("Iter", seq, act.Tag))
			return
		}
		for f, err := range inner {
			// Handle carries the sequence number of the iteration this yield belongs to
			yseq, yact := m.Log.begin("IterYield", seq, string(f.PointerBytes), 0, 0)
			if perr := pre(ctx, yact); perr != nil {
				m.Log.end(yseq, perr, -1)
				return
			}
			if yact.Fail {
				ierr := injErr("IterYield", yseq, yact.Tag)
				m.Log.end(yseq, ierr, -1)
				yield(bs.MaybeFile{}, ierr)
				return
			}
			cont := yield(f, err)
			m.Log.end(yseq, err, -1)
			if !cont || err != nil {
				return
			}
		}
	}
}
