// Package stores holds the harness's DataStore/MetaStore implementations and
// the instrumented wrappers that log, delay, gate and fail store calls.
package stores

import (
	"bytes"
	"context"
	"errors"
	"fmt"
	"io"
	"os"
	"sort"
	"sync"
)

// MemDataStore is a byte-slice DataStore. Published files become visible on
// Close. Tombstoned files are really deleted when RealDelete is set, else
// kept readable (deferred GC) and only marked.
type MemDataStore struct {
	mu         sync.Mutex
	files      map[string][]byte
	pending    map[string]*memWriter
	Tombstoned map[string]int // pointer -> times tombstoned
	next       int
	prefix     string

	RealDelete bool
	WithAbort  bool // writers expose Abort
}

func NewMemDataStore(prefix string, realDelete, withAbort bool) *MemDataStore {
	return &MemDataStore{files: map[string][]byte{}, pending: map[string]*memWriter{}, Tombstoned: map[string]int{}, prefix: prefix, RealDelete: realDelete, WithAbort: withAbort}
}

type memWriter struct {
	s      *MemDataStore
	ptr    string
	buf    bytes.Buffer
	closed bool
}

type memWriterAbort struct{ *memWriter }

func (w *memWriter) Write(p []byte) (int, error) {
	if w.closed {
		return 0, errors.New("memstore: write after close")
	}
	return w.buf.Write(p)
}

func (w *memWriter) Close() error {
	if w.closed {
		return errors.New("memstore: double close")
	}
	w.closed = true
	w.s.mu.Lock()
	defer w.s.mu.Unlock()
	delete(w.s.pending, w.ptr)
	w.s.files[w.ptr] = append([]byte(nil), w.buf.Bytes()...)
	return nil
}

func (w memWriterAbort) Abort() error {
	w.s.mu.Lock()
	defer w.s.mu.Unlock()
	if w.closed {
		return nil
	}
	w.closed = true
	delete(w.s.pending, w.ptr)
	return nil
}

func (s *MemDataStore) CreateFile(ctx context.Context) (io.WriteCloser, []byte, error) {
	s.mu.Lock()
	defer s.mu.Unlock()
	s.next++
	ptr := fmt.Sprintf("%s%06d", s.prefix, s.next)
	w := &memWriter{s: s, ptr: ptr}
	s.pending[ptr] = w
	if s.WithAbort {
		return memWriterAbort{w}, []byte(ptr), nil
	}
	return w, []byte(ptr), nil
}

type memReader struct {
	*bytes.Reader
}

func (memReader) Close() error { return nil }

func (s *MemDataStore) OpenFile(ctx context.Context, ptr []byte) (io.ReadSeekCloser, error) {
	s.mu.Lock()
	defer s.mu.Unlock()
	b, ok := s.files[string(ptr)]
	if !ok {
		return nil, fmt.Errorf("memstore: %s: %w", ptr, os.ErrNotExist)
	}
	return memReader{bytes.NewReader(b)}, nil
}

func (s *MemDataStore) TombstoneFile(ctx context.Context, ptr []byte) error {
	s.mu.Lock()
	defer s.mu.Unlock()
	s.Tombstoned[string(ptr)]++
	if w, ok := s.pending[string(ptr)]; ok {
		w.closed = true
		delete(s.pending, string(ptr))
	}
	if s.RealDelete {
		delete(s.files, string(ptr))
	}
	return nil
}

// Put installs bytes under a fresh pointer (external-writer files).
func (s *MemDataStore) Put(b []byte) []byte {
	s.mu.Lock()
	defer s.mu.Unlock()
	s.next++
	ptr := fmt.Sprintf("%s%06d", s.prefix, s.next)
	s.files[ptr] = append([]byte(nil), b...)
	return []byte(ptr)
}

// Set replaces the bytes of an existing pointer (corruption experiments).
func (s *MemDataStore) Set(ptr string, b []byte) {
	s.mu.Lock()
	defer s.mu.Unlock()
	s.files[ptr] = b
}

func (s *MemDataStore) Get(ptr string) ([]byte, bool) {
	s.mu.Lock()
	defer s.mu.Unlock()
	b, ok := s.files[ptr]
	return b, ok
}

// Pointers lists published (not deleted) pointers, sorted.
func (s *MemDataStore) Pointers() []string {
	s.mu.Lock()
	defer s.mu.Unlock()
	out := make([]string, 0, len(s.files))
	for k := range s.files {
		out = append(out, k)
	}
	sort.Strings(out)
	return out
}

func (s *MemDataStore) PendingCount() int {
	s.mu.Lock()
	defer s.mu.Unlock()
	return len(s.pending)
}

// Clone deep-copies the store (fault enumeration re-runs from identical state).
func (s *MemDataStore) Clone() *MemDataStore {
	s.mu.Lock()
	defer s.mu.Unlock()
	c := NewMemDataStore(s.prefix, s.RealDelete, s.WithAbort)
	c.next = s.next
	for k, v := range s.files {
		c.files[k] = append([]byte(nil), v...)
	}
	for k, v := range s.Tombstoned {
		c.Tombstoned[k] = v
	}
	return c
}
