package world

import (
	"context"
	"fmt"
	"math"
	"math/big"
	"os"
	"path/filepath"
	"sort"

	bs "github.com/danthegoodman1/bloomsearch"

	"verifharness/core"
	"verifharness/extfmt"
	"verifharness/refsem"
)

func floorCeil(n refsem.Num) (int64, int64) {
	if n.Inf > 0 {
		return math.MaxInt64, math.MaxInt64
	}
	if n.Inf < 0 {
		return math.MinInt64, math.MinInt64
	}
	fl := new(big.Int).Div(n.Rat.Num(), n.Rat.Denom())
	ce := new(big.Int).Set(fl)
	if !n.Rat.IsInt() {
		ce.Add(ce, big.NewInt(1))
	}
	clamp := func(x *big.Int) int64 {
		if x.IsInt64() {
			return x.Int64()
		}
		if x.Sign() > 0 {
			return math.MaxInt64
		}
		return math.MinInt64
	}
	return clamp(fl), clamp(ce)
}

// ExtFileDesc describes an external-writer file for witnesses.
type ExtFileDesc struct {
	Ptr         string `json:"ptr"`
	Blocks      int    `json:"blocks"`
	Rows        int    `json:"rows"`
	NoFileFilt  bool   `json:"no_file_filters,omitempty"`
	NoBlockFilt int    `json:"blocks_without_filters,omitempty"`
	Dropped     int    `json:"blocks_with_one_filter_absent,omitempty"`
	Reversed    bool   `json:"metadata_reversed,omitempty"`
	Padded      int    `json:"padded_sections,omitempty"`
	RegionBytes int    `json:"region_bytes"`
}

// AddExtFile writes a file with the harness's own writer (documented layout +
// WriteFileFooter) as if produced by engine ei's configuration, publishes it
// and registers its rows as stored.
func (w *World) AddExtFile(r *core.Rand, ei int, nrows int, inflate int) (*ExtFileDesc, error) {
	byPart := map[string][]*RowRec{}
	var order []string
	for k := 0; k < nrows; k++ {
		rec := w.NewRow(r, ei)
		if _, ok := byPart[rec.Part]; !ok {
			order = append(order, rec.Part)
		}
		byPart[rec.Part] = append(byPart[rec.Part], rec)
	}
	sort.Strings(order)
	d := &ExtFileDesc{Rows: nrows}
	var blocks []extfmt.ExtBlock
	fpr := core.Pick(r, []float64{0.5, 0.2, 0.01, 1e-6})
	if inflate > 0 {
		fpr = 1e-9 // ~43 bits per entry: with the padding entries each section is close to 1 MiB
	}
	for _, part := range order {
		recs := byPart[part]
		// split a partition into 1-3 blocks
		nb := r.Range(1, 3)
		if inflate > 0 {
			nb = 6
		}
		if w.ExtReverseSections {
			nb = r.Range(3, 6)
		}
		for bi := 0; bi < nb; bi++ {
			lo, hi := bi*len(recs)/nb, (bi+1)*len(recs)/nb
			if lo == hi {
				continue
			}
			eb := extfmt.ExtBlock{Codec: core.Pick(r, []string{"none", "snappy", "zstd", ""}), Partition: part, FPR: fpr, MinMax: map[string]bs.MinMaxIndex{}}
			ent := refsem.NewEntries()
			for _, rec := range recs[lo:hi] {
				eb.Rows = append(eb.Rows, rec.JSON)
				ent.AddDoc(rec.Doc, w.Tok.Ref)
				for _, k := range rec.Keys {
					mn, mx := floorCeil(rec.Indexed[k])
					if cur, ok := eb.MinMax[k]; ok {
						if mn < cur.Min {
							cur.Min = mn
						}
						if mx > cur.Max {
							cur.Max = mx
						}
						eb.MinMax[k] = cur
					} else {
						eb.MinMax[k] = bs.MinMaxIndex{Min: mn, Max: mx}
					}
				}
			}
			if len(eb.MinMax) == 0 {
				eb.MinMax = nil
			}
			for e := range ent.Fields {
				eb.Fields = append(eb.Fields, e)
			}
			for e := range ent.Tokens {
				eb.Tokens = append(eb.Tokens, e)
			}
			for e := range ent.Pairs {
				eb.Pairs = append(eb.Pairs, e)
			}
			for k := 0; k < inflate; k++ {
				eb.Tokens = append(eb.Tokens, fmt.Sprintf("~pad%d_%d", len(blocks), k))
			}
			switch r.Intn(8) {
			case 0:
				eb.NoFilters = true
				d.NoBlockFilt++
			case 1:
				eb.DropFilter = r.Range(1, 3)
				d.Dropped++
			case 2:
				eb.PadSection = r.Range(1, 300)
				d.Padded++
			}
			if w.ExtReverseSections {
				eb.NoFilters, eb.DropFilter = false, 0
			}
			blocks = append(blocks, eb)
		}
	}
	opts := extfmt.ExtOpts{FPR: fpr, NoFileFilters: r.Chance(0.2), ReverseMetadata: r.Chance(0.2), ReverseSections: w.ExtReverseSections}
	d.NoFileFilt, d.Reversed, d.Blocks = opts.NoFileFilters, opts.ReverseMetadata, len(blocks)
	raw, md, err := extfmt.BuildFile(blocks, opts)
	if err != nil {
		return nil, err
	}
	d.RegionBytes = md.BlockFilterRegionSize
	var ptr []byte
	if w.Mem != nil {
		ptr = w.Mem.Put(raw)
	} else {
		w.nvid++
		path := filepath.Join(w.Dir, fmt.Sprintf("ext-%d.dat", w.nvid))
		if err := os.WriteFile(path, raw, 0o600); err != nil {
			return nil, err
		}
		ptr = []byte(path)
	}
	d.Ptr = string(ptr)
	if err := w.Meta.Update(context.Background(), []bs.WriteOperation{{FileMetadata: md, FilePointerBytes: ptr}}, nil); err != nil {
		return nil, err
	}
	for _, recs := range byPart {
		for _, rec := range recs {
			rec.Count++
		}
	}
	return d, nil
}
