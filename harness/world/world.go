// Package world builds and drives a scenario: engines over shared stores, a
// ledger of every row handed to them, an inventory of what the stores hold,
// and helpers to run queries against it.
package world

import (
	"context"
	"encoding/json"
	"errors"
	"fmt"
	"iter"
	"log/slog"
	"os"
	"sort"
	"time"

	bs "github.com/danthegoodman1/bloomsearch"

	"verifharness/core"
	"verifharness/gen"
	"verifharness/refsem"
	"verifharness/stores"
)

// RowRec is the ledger's record of one distinct row.
type RowRec struct {
	VID     string
	Row     map[string]any
	JSON    []byte
	Doc     *refsem.Doc
	View    *refsem.RowView
	Part    string
	Indexed map[string]refsem.Num // key -> exact value, only keys the ingesting engine indexes
	Keys    []string              // sorted keys of Indexed
	Count   int                   // how many times it was stored (acked nil)
	Engine  int
}

func (r *RowRec) Facts() *refsem.RowFacts {
	return &refsem.RowFacts{Partition: r.Part, Indexed: r.Indexed}
}

// StoreKind selects the store pair of a scenario.
type StoreKind string

const (
	StoreMem StoreKind = "mem"    // MemDataStore + MemoryMetaStore
	StoreFS  StoreKind = "fs"     // FileSystemDataStore as both
	StoreMix StoreKind = "fs+mem" // FileSystemDataStore data, MemoryMetaStore meta
)

type World struct {
	// Logger, when set, is the Logger of every engine AddEngine creates (nil = the engine's
	// default, which discards).
	Logger *slog.Logger
	// ExtReverseSections makes AddExtFile lay the block filter sections out in the reverse of
	// the row-data order (each block still points at its own section): a reader that walks the
	// blocks by row-data offset cannot cover two sections with one forward read, so the filter
	// pass of even a small file is a series of reads.
	ExtReverseSections bool
	Case               string
	Kind               StoreKind
	Vocab              *gen.Vocab
	Tok                refsem.Tokenizer
	Specs              []gen.EngineSpec
	Eng                []*bs.BloomSearchEngine

	Mem  *stores.MemDataStore
	FS   *bs.FileSystemDataStore
	Dir  string
	Data bs.DataStore
	Meta bs.MetaStore

	Rows  map[string]*RowRec
	Order []string
	nvid  int

	pending []pendingBatch

	// MetaIgnoresPrefilter: engines see a MetaStore that never prefilters (set before AddEngine).
	MetaIgnoresPrefilter bool

	// WrapData/WrapMeta, when set before Open, wrap the stores the engines see.
	IData *stores.InstrDataStore
	IMeta *stores.InstrMetaStore
}

// ScratchRoot is where filesystem scenarios live; removed by Close.
var ScratchRoot = core.VerifDir + "/.scratch"

func New(caseID string, kind StoreKind, v *gen.Vocab, tok refsem.Tokenizer) *World {
	w := &World{Case: caseID, Kind: kind, Vocab: v, Tok: tok, Rows: map[string]*RowRec{}}
	switch kind {
	case StoreMem:
		w.Mem = stores.NewMemDataStore("m"+caseID+"_", true, true)
		w.Data = w.Mem
		w.Meta = bs.NewMemoryMetaStore()
	case StoreFS, StoreMix:
		os.MkdirAll(ScratchRoot, 0o755)
		dir, err := os.MkdirTemp(ScratchRoot, "w"+caseID+"-")
		if err != nil {
			panic(err)
		}
		w.Dir = dir
		w.FS = bs.NewFileSystemDataStore(dir)
		w.Data = w.FS
		if kind == StoreFS {
			w.Meta = w.FS
		} else {
			w.Meta = bs.NewMemoryMetaStore()
		}
	}
	return w
}

// Instrument wraps the stores with logging wrappers (call before AddEngine).
func (w *World) Instrument(log *stores.Log) {
	w.IData = stores.NewInstrDataStore(w.Data, log)
	w.IMeta = stores.NewInstrMetaStore(w.Meta, log)
}

func (w *World) dataForEngine() bs.DataStore {
	if w.IData != nil {
		return w.IData
	}
	return w.Data
}

func (w *World) metaForEngine() bs.MetaStore {
	var m bs.MetaStore = w.Meta
	if w.IMeta != nil {
		m = w.IMeta
	}
	if w.MetaIgnoresPrefilter {
		return noPrefilterMeta{m}
	}
	return m
}

// noPrefilterMeta is a MetaStore that leaves prefiltering entirely to the engine (the contract
// allows it): it asks the store underneath for everything. What it yields may then share storage
// with what the store keeps, which a consumer must treat as read-only.
type noPrefilterMeta struct{ bs.MetaStore }

func (m noPrefilterMeta) GetMaybeFilesForQuery(ctx context.Context, _ *bs.QueryPrefilter) iter.Seq2[bs.MaybeFile, error] {
	return m.MetaStore.GetMaybeFilesForQuery(ctx, nil)
}

func (w *World) AddEngine(spec gen.EngineSpec) (int, error) {
	cfg := spec.Config()
	cfg.Logger = w.Logger
	e, err := bs.NewBloomSearchEngine(cfg, w.metaForEngine(), w.dataForEngine())
	if err != nil {
		return -1, err
	}
	e.Start()
	w.Specs = append(w.Specs, spec)
	w.Eng = append(w.Eng, e)
	return len(w.Eng) - 1, nil
}

func (w *World) Close() {
	for _, e := range w.Eng {
		ctx, cancel := context.WithTimeout(context.Background(), core.Patience)
		e.Stop(ctx)
		cancel()
	}
	if w.Dir != "" {
		os.RemoveAll(w.Dir)
	}
}

// NewRow generates a row for engine ei and registers it in the ledger with
// Count 0 (it is counted when acked).
func (w *World) NewRow(r *core.Rand, ei int) *RowRec {
	w.nvid++
	vid := gen.Vid(w.Case, w.nvid)
	row := w.Vocab.Row(r, vid)
	rec, err := w.Register(row, ei)
	if err != nil {
		panic(fmt.Sprintf("generated row not marshalable: %v", err))
	}
	return rec
}

// NewRowWith is NewRow with a hook that edits the generated row before it is
// registered (so that its partition id and indexed values reflect the edit).
func (w *World) NewRowWith(r *core.Rand, ei int, edit func(row map[string]any)) *RowRec {
	w.nvid++
	vid := gen.Vid(w.Case, w.nvid)
	row := w.Vocab.Row(r, vid)
	edit(row)
	rec, err := w.Register(row, ei)
	if err != nil {
		panic(fmt.Sprintf("generated row not marshalable: %v", err))
	}
	return rec
}

// Register computes the ledger record for a row with a _vid.
func (w *World) Register(row map[string]any, ei int) (*RowRec, error) {
	b, err := json.Marshal(row)
	if err != nil {
		return nil, err
	}
	doc, err := refsem.Parse(b)
	if err != nil {
		return nil, fmt.Errorf("refsem parse: %w", err)
	}
	vid, _ := row["_vid"].(string)
	spec := w.Specs[ei]
	rec := &RowRec{VID: vid, Row: row, JSON: b, Doc: doc, View: refsem.NewRowView(doc, w.Tok.Ref), Part: spec.PartitionOf(row), Indexed: map[string]refsem.Num{}, Engine: ei}
	for _, k := range spec.MinMax {
		if v, ok := row[k]; ok {
			if n, ok := refsem.NumericValue(v); ok {
				rec.Indexed[k] = n
				rec.Keys = append(rec.Keys, k)
			}
		}
	}
	sort.Strings(rec.Keys)
	w.Rows[vid] = rec
	w.Order = append(w.Order, vid)
	return rec, nil
}

// Ingest sends one batch to engine ei and returns the done channel.
func (w *World) Ingest(ei int, recs []*RowRec) (chan error, error) {
	rows := make([]map[string]any, len(recs))
	for i, r := range recs {
		rows[i] = r.Row
	}
	done := make(chan error, 2)
	err := w.Eng[ei].IngestRows(context.Background(), rows, done)
	return done, err
}

// IngestPoison sends a batch that must be rejected as a whole: a few good rows with fresh
// entries followed by a row encoding/json cannot marshal. The good rows are registered with
// Count 0 (never stored). The caller checks that the returned channel yields an error.
func (w *World) IngestPoison(r *core.Rand, ei int) (chan error, error) {
	var rows []map[string]any
	for k, n := 0, r.Range(1, 3); k < n; k++ {
		rows = append(rows, w.NewRow(r, ei).Row)
	}
	bad := map[string]any{"_vid": "poison", "novel_field_of_poison_row": "novelpoisontoken", "bad": func() {}}
	pos := r.Range(1, len(rows))
	rows = append(rows[:pos], append([]map[string]any{bad}, rows[pos:]...)...)
	done := make(chan error, 2)
	return done, w.Eng[ei].IngestRows(context.Background(), rows, done)
}

// IngestSync ingests batches, flushes, and counts acked rows in the ledger.
func (w *World) IngestSync(ei int, batches [][]*RowRec) error {
	if _, err := w.ingestNoFlush(ei, batches); err != nil {
		return err
	}
	ctx, cancel := context.WithTimeout(context.Background(), core.Patience)
	defer cancel()
	if err := w.Eng[ei].Flush(ctx); err != nil {
		return fmt.Errorf("flush: %w", err)
	}
	return w.settlePending()
}

type pendingBatch struct {
	ch   chan error
	recs []*RowRec
}

// ingestNoFlush sends batches and remembers their done channels; a later IngestSync (or
// settlePending after a Flush) collects the answers.
func (w *World) ingestNoFlush(ei int, batches [][]*RowRec) (int, error) {
	for _, b := range batches {
		ch, err := w.Ingest(ei, b)
		if err != nil {
			return 0, err
		}
		w.pending = append(w.pending, pendingBatch{ch, b})
	}
	return len(batches), nil
}

// settlePending waits for the answer of every remembered batch and counts acked rows.
func (w *World) settlePending() error {
	ps := w.pending
	w.pending = nil
	var errs []error
	for _, p := range ps {
		select {
		case err := <-p.ch:
			if err != nil {
				errs = append(errs, err)
				continue
			}
			for _, r := range p.recs {
				r.Count++
			}
		case <-time.After(core.Patience):
			return errors.New("batch not answered 60s after Flush returned")
		}
	}
	return errors.Join(errs...)
}

// BlockInv / FileInv: what the stores hold, read through the public helpers.
type BlockInv struct {
	File    string
	Index   int
	Meta    bs.DataBlockMetadata
	VIDs    []string
	RowJSON [][]byte
	RowData []byte
}

type FileInv struct {
	Ptr    string
	Meta   bs.FileMetadata
	Blocks []*BlockInv
}

// Inventory lists every file the MetaStore references and every row in it.
func (w *World) Inventory() ([]*FileInv, error) {
	return InventoryOf(w.Meta, w.Data)
}

func InventoryOf(meta bs.MetaStore, data bs.DataStore) ([]*FileInv, error) {
	var out []*FileInv
	ctx := context.Background()
	for mf, err := range meta.GetMaybeFilesForQuery(ctx, nil) {
		if err != nil {
			return nil, err
		}
		fi := &FileInv{Ptr: string(mf.PointerBytes), Meta: mf.Metadata}
		h, err := data.OpenFile(ctx, mf.PointerBytes)
		if err != nil {
			return nil, fmt.Errorf("inventory: open %s: %w", fi.Ptr, err)
		}
		for i := range mf.Metadata.DataBlocks {
			bm := mf.Metadata.DataBlocks[i]
			rd, err := bs.ReadDataBlockRowData(h, &bm)
			if err != nil {
				h.Close()
				return nil, fmt.Errorf("inventory: block %d of %s: %w", i, fi.Ptr, err)
			}
			bi := &BlockInv{File: fi.Ptr, Index: i, Meta: bm, RowData: rd}
			sc := bs.NewBlockRowScanner(rd)
			for {
				row, ok, err := sc.Next()
				if err != nil {
					h.Close()
					return nil, fmt.Errorf("inventory: scan block %d of %s: %w", i, fi.Ptr, err)
				}
				if !ok {
					break
				}
				bi.RowJSON = append(bi.RowJSON, append([]byte(nil), row...))
				bi.VIDs = append(bi.VIDs, VidOfJSON(row))
			}
			fi.Blocks = append(fi.Blocks, bi)
		}
		h.Close()
		out = append(out, fi)
	}
	sort.Slice(out, func(i, j int) bool { return out[i].Ptr < out[j].Ptr })
	return out, nil
}

// VidOfJSON extracts _vid from a row's JSON ("" when absent).
func VidOfJSON(b []byte) string {
	var m struct {
		V string `json:"_vid"`
	}
	if err := json.Unmarshal(b, &m); err != nil {
		return ""
	}
	return m.V
}

func VidOfRow(m map[string]any) string {
	s, _ := m["_vid"].(string)
	return s
}

// QueryResult is everything a monitor sees of one finished query.
type QueryResult struct {
	Rows  []map[string]any
	VIDs  map[string]int
	Err   error
	QErr  error // error returned by Query itself
	Stats bs.QueryStats
}

// RunQuery runs q to completion on engine e.
func RunQuery(ctx context.Context, e *bs.BloomSearchEngine, q *bs.Query) *QueryResult {
	res := &QueryResult{VIDs: map[string]int{}}
	rs, err := e.Query(ctx, q)
	if err != nil {
		res.QErr = err
		return res
	}
	for rs.Next() {
		row := rs.Row()
		res.Rows = append(res.Rows, row)
		res.VIDs[VidOfRow(row)]++
	}
	res.Err = rs.Err()
	res.Stats = rs.Stats()
	rs.Close()
	return res
}

// Docs returns the parsed docs of all stored rows (Count > 0).
func (w *World) StoredRecs() []*RowRec {
	var out []*RowRec
	for _, vid := range w.Order {
		if r := w.Rows[vid]; r.Count > 0 {
			out = append(out, r)
		}
	}
	return out
}

// Facts derives query-generation facts from the stored rows.
func (w *World) Facts() *gen.DataFacts {
	recs := w.StoredRecs()
	docs := make([]*refsem.Doc, 0, len(recs))
	parts := map[string]struct{}{}
	keys := map[string]struct{}{}
	var nums []int64
	for _, r := range recs {
		docs = append(docs, r.Doc)
		if r.Part != "" {
			parts[r.Part] = struct{}{}
		}
		for _, k := range r.Keys {
			n := r.Indexed[k]
			keys[k] = struct{}{}
			if n.Inf == 0 && len(nums) < 64 {
				f, _ := n.Rat.Float64()
				if f > -9e18 && f < 9e18 {
					nums = append(nums, int64(f))
				}
			}
		}
	}
	var ps, ks []string
	for p := range parts {
		ps = append(ps, p)
	}
	for k := range keys {
		ks = append(ks, k)
	}
	for _, s := range w.Specs {
		for _, k := range s.MinMax {
			if _, ok := keys[k]; !ok {
				ks = append(ks, k)
				keys[k] = struct{}{}
			}
		}
	}
	sort.Strings(ps)
	sort.Strings(ks)
	return gen.FactsFrom(docs, w.Tok.Ref, ps, ks, nums)
}

// FileBytes returns the raw bytes of a stored file.
func (w *World) FileBytes(ptr string) ([]byte, error) {
	if w.Mem != nil {
		b, ok := w.Mem.Get(ptr)
		if !ok {
			return nil, fmt.Errorf("no such file %s", ptr)
		}
		return b, nil
	}
	return os.ReadFile(ptr)
}
