package world

import (
	"context"
	"fmt"
	"strings"
	"time"

	"verifharness/core"
	"verifharness/gen"
)

// BuildOpts steers scenario generation.
type BuildOpts struct {
	Kind       StoreKind // "" = pick
	MemOnly    bool      // restrict pick to StoreMem (fast; no disk)
	MaxRows    int       // rows per scenario upper bound (default 80)
	HighFPR    bool      // over-represent FPR >= 0.2
	NoMerge    bool
	MoreMerge  bool
	Tokenizer  string // "" = pick
	SingleSpec bool
	ExtFiles   bool // add external-writer files
	BigNums    bool // boundary-magnitude values under the indexed keys
	BigRegion  bool // external files get multi-MiB filter sections (multi-chunk region reads)
	ManyFiles  bool // more, smaller ingest steps (several files per engine: multi-group merges)
	// BigBlocks pads rows with kilobytes of compressible and incompressible text and lets the
	// engines (which differ in codec) build and combine blocks of hundreds of KiB: more than one
	// internal block of any streaming encoder.
	BigBlocks bool
	// MetaIgnoresPrefilter: the engines' MetaStore leaves all prefiltering to the engine.
	MetaIgnoresPrefilter bool
}

// Descriptor is the replayable description of a built scenario.
type Descriptor struct {
	Case    string           `json:"case"`
	Kind    StoreKind        `json:"stores"`
	Engines []gen.EngineSpec `json:"engines"`
	Steps   []string         `json:"steps"`
	Ext     []*ExtFileDesc   `json:"external_files,omitempty"`
	Rows    int              `json:"rows"`
	Files   int              `json:"files"`
	Blocks  int              `json:"blocks"`
}

// Build generates and runs a scenario history: ingest batches on one or more
// engines over one store pair, flushes, merges. The returned world is open
// (call Close).
func Build(r *core.Rand, caseID string, o BuildOpts) (*World, *Descriptor, error) {
	return BuildWith(r, caseID, o, nil)
}

// BuildWith is Build with a hook that runs on the fresh world before any
// engine is created (to instrument the stores).
func BuildWith(r *core.Rand, caseID string, o BuildOpts, pre func(*World)) (*World, *Descriptor, error) {
	v := gen.NewVocab(r.Split("vocab"))
	v.BigNums = o.BigNums
	tok := gen.PickTokenizer(r.Split("tok"))
	if o.Tokenizer != "" {
		tok = gen.TokenizerByName(o.Tokenizer)
	}
	kind := o.Kind
	if kind == "" {
		switch {
		case o.MemOnly:
			kind = StoreMem
		default:
			kind = core.Pick(r, []StoreKind{StoreMem, StoreMem, StoreMem, StoreFS, StoreMix})
		}
	}
	w := New(caseID, kind, v, tok)
	if pre != nil {
		pre(w)
	}
	w.MetaIgnoresPrefilter = o.MetaIgnoresPrefilter
	d := &Descriptor{Case: caseID, Kind: kind}
	ne := r.Range(1, 3)
	if o.SingleSpec {
		ne = 1
	}
	if o.BigBlocks {
		ne = 3 // one engine per codec
	}
	for i := 0; i < ne; i++ {
		spec := gen.PickEngineSpec(r.Split("spec", i), v, tok)
		if o.BigBlocks {
			spec.Compression = []string{"zstd", "snappy", "none"}[(i+r.Intn(3))%3]
			spec.ZstdLevel = 1
			spec.Part = gen.PartFunc{Name: "none"}
			spec.Partition = "none"
			spec.MinMax = nil
			spec.RGRows, spec.RGBytes, spec.BufRows, spec.BufBytes = 1<<20, 1<<30, 1<<20, 1<<30
			spec.MaxFileSize, spec.MergeFiles = 10<<30, 10
		}
		if o.HighFPR && r.Chance(0.7) {
			spec.FPR = core.Pick(r, []float64{0.5, 0.5, 0.2})
		}
		if _, err := w.AddEngine(spec); err != nil {
			w.Close()
			return nil, nil, fmt.Errorf("engine %d: %w", i, err)
		}
	}
	d.Engines = w.Specs
	maxRows := o.MaxRows
	if maxRows == 0 {
		maxRows = 80
	}
	budget := r.Range(5, maxRows)
	steps := r.Range(2, 7)
	if o.BigBlocks {
		budget, steps = r.Range(60, 160), r.Range(3, 5)
	}
	if o.ManyFiles {
		budget = r.Range(maxRows/2, maxRows)
		steps = r.Range(6, 14)
	}
	rr := r.Split("rows")
	for s := 0; s < steps && budget > 0; s++ {
		ei := r.Intn(len(w.Eng))
		nb := r.Range(1, 3)
		if o.ManyFiles {
			nb = 1
		}
		var batches [][]*RowRec
		total := 0
		compressibleStep := r.Bool()
		for b := 0; b < nb && budget > 0; b++ {
			n := r.Range(1, 12)
			if o.BigBlocks {
				n = r.Range(15, 40)
			}
			if r.Chance(0.15) && !o.ManyFiles {
				n = r.Range(12, 40)
			}
			if n > budget {
				n = budget
			}
			var recs []*RowRec
			for i := 0; i < n; i++ {
				if o.BigBlocks {
					recs = append(recs, w.NewRowWith(rr, ei, func(row map[string]any) {
						// one kind of padding per file: a file of highly compressible rows is
						// small on disk however much it decodes to, one of random text is not
						if compressibleStep {
							row["pad"] = strings.Repeat(core.Pick(rr, v.Words)+" ", rr.Range(500, 2500))
						} else {
							var sb strings.Builder
							for k, m := 0, rr.Range(300, 1500); k < m; k++ {
								fmt.Fprintf(&sb, "%x ", rr.Uint64())
							}
							row["pad"] = sb.String()
						}
					}))
					continue
				}
				recs = append(recs, w.NewRow(rr, ei))
			}
			if r.Chance(0.1) && len(recs) > 0 {
				// a deliberately duplicated row (same _vid twice in the batch)
				recs = append(recs, recs[r.Intn(len(recs))])
			}
			batches = append(batches, recs)
			budget -= n
			total += len(recs)
		}
		// Sometimes a batch holding an unmarshalable row is slipped in while the step's good
		// batches sit in the partition buffers: it must be rejected as a whole and leave no trace
		// in rows, filters, counts or ranges.
		var poison chan error
		if r.Chance(0.2) && len(batches) > 0 {
			first := batches[:1]
			rest := batches[1:]
			if _, err := w.ingestNoFlush(ei, first); err != nil {
				w.Close()
				return nil, nil, fmt.Errorf("ingest step %d: %w", s, err)
			}
			var perr error
			if poison, perr = w.IngestPoison(r.Split("poison", s), ei); perr != nil {
				w.Close()
				return nil, nil, fmt.Errorf("poison batch refused at step %d: %w", s, perr)
			}
			batches = rest
		}
		if err := w.IngestSync(ei, batches); err != nil {
			w.Close()
			return nil, nil, fmt.Errorf("ingest step %d: %w", s, err)
		}
		if poison != nil {
			select {
			case perr := <-poison:
				if perr == nil {
					w.Close()
					return nil, nil, fmt.Errorf("step %d: a batch holding an unmarshalable row was acknowledged nil", s)
				}
			case <-time.After(core.Patience):
				w.Close()
				return nil, nil, fmt.Errorf("step %d: unmarshalable batch not answered", s)
			}
			if err := w.settlePending(); err != nil {
				w.Close()
				return nil, nil, fmt.Errorf("ingest step %d: %w", s, err)
			}
			d.Steps = append(d.Steps, "poison-batch(rejected)")
		}
		d.Steps = append(d.Steps, fmt.Sprintf("ingest(engine=%d,batches=%d,rows=%d)+flush", ei, len(batches), total))
		if o.ExtFiles && r.Chance(0.6) {
			inflate := 0
			if o.BigRegion {
				inflate = 160000
			}
			nx := r.Range(3, 25)
			if inflate > 0 {
				nx = r.Range(12, 25)
			}
			xd, err := w.AddExtFile(r.Split("ext", s), r.Intn(len(w.Eng)), nx, inflate)
			if err != nil {
				w.Close()
				return nil, nil, fmt.Errorf("external file: %w", err)
			}
			d.Ext = append(d.Ext, xd)
			d.Steps = append(d.Steps, fmt.Sprintf("extwriter(file=%s,blocks=%d,rows=%d)", xd.Ptr, xd.Blocks, xd.Rows))
		}
		if !o.NoMerge && (r.Chance(0.3) || (o.MoreMerge && r.Chance(0.5))) {
			mi := r.Intn(len(w.Eng))
			rounds := 1
			if r.Chance(0.3) {
				rounds = r.Range(2, 4)
			}
			for k := 0; k < rounds; k++ {
				ctx, cancel := context.WithTimeout(context.Background(), core.Patience)
				_, err := w.Eng[mi].Merge(ctx)
				cancel()
				if err != nil {
					w.Close()
					return nil, nil, fmt.Errorf("merge step %d: %w", s, err)
				}
			}
			d.Steps = append(d.Steps, fmt.Sprintf("merge(engine=%d)x%d", mi, rounds))
		}
	}
	if o.BigBlocks && !o.NoMerge {
		// files written under different codecs get merged by an engine whose own codec compresses
		for mi, spec := range w.Specs {
			if spec.Compression == "none" || r.Chance(0.3) {
				continue
			}
			ctx, cancel := context.WithTimeout(context.Background(), core.Patience)
			_, err := w.Eng[mi].Merge(ctx)
			cancel()
			if err != nil {
				w.Close()
				return nil, nil, fmt.Errorf("final merge by engine %d: %w", mi, err)
			}
			d.Steps = append(d.Steps, fmt.Sprintf("merge(engine=%d,codec=%s)", mi, spec.Compression))
			break
		}
	}
	for _, rec := range w.Rows {
		if rec.Count > 0 {
			d.Rows += rec.Count
		}
	}
	return w, d, nil
}
