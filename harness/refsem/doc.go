// Package refsem is the harness's independent reference semantics, written
// from README "Search semantics", FILE_FORMAT.md and the exported doc
// comments over encoding/json only (never gjson, never the package's own
// walkers). Every oracle that needs to know what a row contains, whether a
// row matches a query, or what a prefilter means asks this package.
package refsem

import (
	"bytes"
	"encoding/json"
	"fmt"
	"io"
	"strings"
)

const Delim = "."

// Leaf is one primitive value of a row.
type Leaf struct {
	Path    string
	Text    string // decoded string, number literal as marshaled, "true"/"false"
	HasText bool   // false for null
}

// Doc is a row seen through encoding/json tokens.
type Doc struct {
	JSON    []byte
	Fields  map[string]struct{} // every field-existence entry
	Leaves  []Leaf
	DupKeys bool // some object repeats a key (raw JSON only)
}

type parser struct {
	dec *json.Decoder
	doc *Doc
}

// Parse walks the canonical (marshaled) form of a row.
func Parse(jsonBytes []byte) (*Doc, error) {
	dec := json.NewDecoder(bytes.NewReader(jsonBytes))
	dec.UseNumber()
	p := &parser{dec: dec, doc: &Doc{JSON: jsonBytes, Fields: map[string]struct{}{}}}
	if err := p.value(""); err != nil {
		return nil, err
	}
	if _, err := dec.Token(); err != io.EOF {
		return nil, fmt.Errorf("trailing data after row")
	}
	return p.doc, nil
}

func join(parent, key string) string {
	if parent == "" {
		return key
	}
	return parent + Delim + key
}

// addPath records a path and every non-empty proper prefix that ends right
// before a delimiter (README: delimiter-split prefix paths are field
// entries; intermediate containers are such prefixes too).
func (p *parser) addPath(path string) {
	if path == "" {
		return
	}
	p.doc.Fields[path] = struct{}{}
	for i := 0; i < len(path); i++ {
		if strings.HasPrefix(path[i:], Delim) && i > 0 {
			p.doc.Fields[path[:i]] = struct{}{}
		}
	}
}

func (p *parser) value(path string) error {
	tok, err := p.dec.Token()
	if err != nil {
		return err
	}
	switch t := tok.(type) {
	case json.Delim:
		switch t {
		case '{':
			p.addPath(path)
			seen := map[string]struct{}{}
			for p.dec.More() {
				kt, err := p.dec.Token()
				if err != nil {
					return err
				}
				key, ok := kt.(string)
				if !ok {
					return fmt.Errorf("non-string key")
				}
				if _, dup := seen[key]; dup {
					p.doc.DupKeys = true
				}
				seen[key] = struct{}{}
				if err := p.value(join(path, key)); err != nil {
					return err
				}
			}
			_, err := p.dec.Token()
			return err
		case '[':
			p.addPath(path)
			for p.dec.More() {
				if err := p.value(path); err != nil {
					return err
				}
			}
			_, err := p.dec.Token()
			return err
		}
		return fmt.Errorf("unexpected delimiter %v", t)
	case string:
		p.leaf(path, t, true)
	case json.Number:
		p.leaf(path, string(t), true)
	case bool:
		if t {
			p.leaf(path, "true", true)
		} else {
			p.leaf(path, "false", true)
		}
	case nil:
		p.leaf(path, "", false)
	default:
		return fmt.Errorf("unexpected token %T", tok)
	}
	return nil
}

func (p *parser) leaf(path, text string, has bool) {
	if path == "" {
		return // the empty path is never an entry
	}
	p.addPath(path)
	p.doc.Leaves = append(p.doc.Leaves, Leaf{Path: path, Text: text, HasText: has})
}

// Tokenizer is a named, deterministic tokenizer. Fn is what the engine is
// configured with; Ref is what the oracle uses (for the default tokenizer an
// independent implementation of the documented behaviour, for custom ones the
// very same function).
type Tokenizer struct {
	Name string
	Fn   func(string) []string
	Ref  func(string) []string
}

// DefaultRef is the documented default: lowercase, split on whitespace.
func DefaultRef(text string) []string { return strings.Fields(strings.ToLower(text)) }

// Entries are the index entries of a set of rows under a tokenizer.
type Entries struct {
	Fields map[string]struct{}
	Tokens map[string]struct{}
	Pairs  map[string]struct{} // path + "::" + token
}

func NewEntries() *Entries {
	return &Entries{Fields: map[string]struct{}{}, Tokens: map[string]struct{}{}, Pairs: map[string]struct{}{}}
}

// PairKey is the field:token filter membership key.
func PairKey(path, token string) string { return path + "::" + token }

func (e *Entries) AddDoc(d *Doc, tok func(string) []string) {
	for f := range d.Fields {
		e.Fields[f] = struct{}{}
	}
	for _, l := range d.Leaves {
		if !l.HasText {
			continue
		}
		for _, t := range tok(l.Text) {
			e.Tokens[t] = struct{}{}
			e.Pairs[PairKey(l.Path, t)] = struct{}{}
		}
	}
}

func (e *Entries) Union(o *Entries) {
	for k := range o.Fields {
		e.Fields[k] = struct{}{}
	}
	for k := range o.Tokens {
		e.Tokens[k] = struct{}{}
	}
	for k := range o.Pairs {
		e.Pairs[k] = struct{}{}
	}
}
