package refsem

import (
	"regexp"
	"strings"

	bs "github.com/danthegoodman1/bloomsearch"
)

// RowView caches per-row token sets for one tokenizer.
type RowView struct {
	Doc    *Doc
	tokens map[string]struct{}
	pairs  map[string]struct{}
}

func NewRowView(d *Doc, tok func(string) []string) *RowView {
	v := &RowView{Doc: d, tokens: map[string]struct{}{}, pairs: map[string]struct{}{}}
	for _, l := range d.Leaves {
		if !l.HasText {
			continue
		}
		for _, t := range tok(l.Text) {
			v.tokens[t] = struct{}{}
			v.pairs[l.Path+"\x00"+t] = struct{}{}
		}
	}
	return v
}

func (v *RowView) HasField(f string) bool {
	if f == "" {
		return false
	}
	_, ok := v.Doc.Fields[f]
	return ok
}

func (v *RowView) HasToken(t string) bool { _, ok := v.tokens[t]; return ok }

func (v *RowView) HasFieldToken(f, t string) bool {
	if f == "" {
		return false
	}
	_, ok := v.pairs[f+"\x00"+t]
	return ok
}

// MatchBloom evaluates a bloom tree: nil expression and nil condition are
// true, AND is a conjunction (empty = true), OR a disjunction (empty =
// false), unknown expression or condition types are false.
func (v *RowView) MatchBloom(e *bs.BloomExpression) bool {
	if e == nil {
		return true
	}
	switch e.ExpressionType {
	case bs.BloomExpressionCondition:
		if e.Condition == nil {
			return true
		}
		switch e.Condition.Type {
		case bs.BloomField:
			return v.HasField(e.Condition.Field)
		case bs.BloomToken:
			return v.HasToken(e.Condition.Token)
		case bs.BloomFieldToken:
			return v.HasFieldToken(e.Condition.Field, e.Condition.Token)
		}
		return false
	case bs.BloomExpressionAnd:
		for i := range e.Children {
			if !v.MatchBloom(&e.Children[i]) {
				return false
			}
		}
		return true
	case bs.BloomExpressionOr:
		for i := range e.Children {
			if v.MatchBloom(&e.Children[i]) {
				return true
			}
		}
		return false
	}
	return false
}

// RegexStatus classifies a regex tree before evaluation.
type RegexStatus int

const (
	RegexOK      RegexStatus = iota
	RegexInvalid             // Query is expected to fail: invalid pattern or unknown expression type
)

// CheckRegex reports whether Query must refuse the tree (an invalid pattern
// or an unknown expression type anywhere in it).
func CheckRegex(e *bs.RegexExpression) RegexStatus {
	if e == nil {
		return RegexOK
	}
	switch e.ExpressionType {
	case bs.RegexExpressionCondition:
		if e.Condition == nil {
			return RegexOK
		}
		if _, err := regexp.Compile(e.Condition.Pattern); err != nil {
			return RegexInvalid
		}
		return RegexOK
	case bs.RegexExpressionAnd, bs.RegexExpressionOr:
		for i := range e.Children {
			if CheckRegex(&e.Children[i]) == RegexInvalid {
				return RegexInvalid
			}
		}
		return RegexOK
	}
	return RegexInvalid
}

// MatchRegex evaluates a (valid) regex tree with the same constant rules as
// MatchBloom. FieldRegex(f, p): f is non-empty and p matches the text of a
// non-null leaf at f or beneath f + delimiter.
func (v *RowView) MatchRegex(e *bs.RegexExpression) bool {
	if e == nil {
		return true
	}
	switch e.ExpressionType {
	case bs.RegexExpressionCondition:
		if e.Condition == nil {
			return true
		}
		f := e.Condition.Field
		if f == "" {
			return false
		}
		re, err := regexp.Compile(e.Condition.Pattern)
		if err != nil {
			return false
		}
		for _, l := range v.Doc.Leaves {
			if !l.HasText {
				continue
			}
			if l.Path == f || strings.HasPrefix(l.Path, f+Delim) {
				if re.MatchString(l.Text) {
					return true
				}
			}
		}
		return false
	case bs.RegexExpressionAnd:
		for i := range e.Children {
			if !v.MatchRegex(&e.Children[i]) {
				return false
			}
		}
		return true
	case bs.RegexExpressionOr:
		for i := range e.Children {
			if v.MatchRegex(&e.Children[i]) {
				return true
			}
		}
		return false
	}
	return false
}

// Match evaluates the bloom and regex parts of a query against the row.
func (v *RowView) Match(q *bs.Query) bool {
	if q == nil {
		return true
	}
	if q.Bloom != nil && !v.MatchBloom(q.Bloom.Expression) {
		return false
	}
	if q.Regex != nil && !v.MatchRegex(q.Regex.Expression) {
		return false
	}
	return true
}
