package refsem

import (
	"math"
	"math/big"
	"reflect"

	bs "github.com/danthegoodman1/bloomsearch"
)

// Num is an exact numeric value: a rational, or +/-infinity.
type Num struct {
	Rat *big.Rat
	Inf int // -1, 0, +1
}

// NumericValue extracts the exact value of any Go integer or floating-point
// value, named types included (by reflect kind). NaN and non-numeric values
// are not indexed.
func NumericValue(v any) (Num, bool) {
	if v == nil {
		return Num{}, false
	}
	rv := reflect.ValueOf(v)
	switch rv.Kind() {
	case reflect.Int, reflect.Int8, reflect.Int16, reflect.Int32, reflect.Int64:
		return Num{Rat: new(big.Rat).SetInt64(rv.Int())}, true
	case reflect.Uint, reflect.Uint8, reflect.Uint16, reflect.Uint32, reflect.Uint64, reflect.Uintptr:
		return Num{Rat: new(big.Rat).SetInt(new(big.Int).SetUint64(rv.Uint()))}, true
	case reflect.Float32, reflect.Float64:
		f := rv.Float()
		if math.IsNaN(f) {
			return Num{}, false
		}
		if math.IsInf(f, 1) {
			return Num{Inf: 1}, true
		}
		if math.IsInf(f, -1) {
			return Num{Inf: -1}, true
		}
		r := new(big.Rat)
		r.SetFloat64(f)
		return Num{Rat: r}, true
	}
	return Num{}, false
}

// Cmp compares the value with an int64 operand: -1, 0, +1.
func (n Num) Cmp(x int64) int {
	if n.Inf != 0 {
		return n.Inf
	}
	return n.Rat.Cmp(new(big.Rat).SetInt64(x))
}

// Satisfies evaluates a numeric condition on the exact value.
func (n Num) Satisfies(c bs.NumericCondition) bool {
	switch c.Operator {
	case bs.OpEqual:
		return n.Cmp(c.Value) == 0
	case bs.OpNotEqual:
		return n.Cmp(c.Value) != 0
	case bs.OpGreaterThan:
		return n.Cmp(c.Value) > 0
	case bs.OpGreaterThanEqual:
		return n.Cmp(c.Value) >= 0
	case bs.OpLessThan:
		return n.Cmp(c.Value) < 0
	case bs.OpLessThanEqual:
		return n.Cmp(c.Value) <= 0
	case bs.OpIn:
		for _, x := range c.Values {
			if n.Cmp(x) == 0 {
				return true
			}
		}
		return false
	case bs.OpNotIn:
		for _, x := range c.Values {
			if n.Cmp(x) == 0 {
				return false
			}
		}
		return true
	case bs.OpBetween:
		return n.Cmp(c.Min) >= 0 && n.Cmp(c.Max) <= 0
	case bs.OpNotBetween:
		return n.Cmp(c.Min) < 0 || n.Cmp(c.Max) > 0
	}
	return false
}

// CoveredBy reports whether a block range covers the value, with bounds at
// the int64 extremes treated as open-ended.
func (n Num) CoveredBy(idx bs.MinMaxIndex) bool {
	lowOK := idx.Min == math.MinInt64 || n.Cmp(idx.Min) >= 0
	highOK := idx.Max == math.MaxInt64 || n.Cmp(idx.Max) <= 0
	return lowOK && highOK
}

// StringSatisfies evaluates a partition condition on a non-empty id.
func StringSatisfies(v string, c bs.StringCondition) bool {
	switch c.Operator {
	case bs.OpEqual:
		return v == c.Value
	case bs.OpNotEqual:
		return v != c.Value
	case bs.OpGreaterThan:
		return v > c.Value
	case bs.OpGreaterThanEqual:
		return v >= c.Value
	case bs.OpLessThan:
		return v < c.Value
	case bs.OpLessThanEqual:
		return v <= c.Value
	case bs.OpIn:
		for _, x := range c.Values {
			if v == x {
				return true
			}
		}
		return false
	case bs.OpNotIn:
		for _, x := range c.Values {
			if v == x {
				return false
			}
		}
		return true
	case bs.OpBetween:
		return v >= c.Min && v <= c.Max
	case bs.OpNotBetween:
		return v < c.Min || v > c.Max
	}
	return false
}

// RowFacts is what a prefilter can see of a row: its own partition id and the
// exact values it was indexed under.
type RowFacts struct {
	Partition string
	Indexed   map[string]Num // top-level key -> value, only keys configured at ingest
}

// RowSatisfies evaluates the prefilter tree on the row's own facts. It is the
// antecedent of C01/C04: if it is true the row must not be pruned. Unknown
// node or operator kinds are false (no claim).
func RowSatisfies(f *RowFacts, q *bs.QueryPrefilter) bool {
	if q == nil || q.Expression == nil {
		return true
	}
	return rowExpr(f, q.Expression)
}

func rowExpr(f *RowFacts, e *bs.PrefilterExpression) bool {
	if e == nil {
		return true
	}
	switch e.ExpressionType {
	case bs.PrefilterExpressionCondition:
		if e.Condition == nil {
			return true
		}
		c := e.Condition
		switch c.ConditionType {
		case bs.PrefilterConditionPartition:
			if c.PartitionCondition == nil {
				return true
			}
			if f.Partition == "" {
				return false
			}
			return StringSatisfies(f.Partition, *c.PartitionCondition)
		case bs.PrefilterConditionMinMax:
			if c.MinMaxCondition == nil {
				return true
			}
			n, ok := f.Indexed[c.MinMaxFieldName]
			if !ok {
				return false
			}
			return n.Satisfies(*c.MinMaxCondition)
		}
		return false
	case bs.PrefilterExpressionAnd:
		for i := range e.Children {
			if !rowExpr(f, &e.Children[i]) {
				return false
			}
		}
		return true
	case bs.PrefilterExpressionOr:
		for i := range e.Children {
			if rowExpr(f, &e.Children[i]) {
				return true
			}
		}
		return false
	}
	return false
}

// Block-level evaluation. mode selects the derived predicate:
//   - Must: strict evaluation over the block metadata (missing partition id or
//     minmax key makes that condition false; range overlap with saturated
//     bounds open-ended). True => the block must be scanned.
//   - May: every condition whose metadata is present counts as true, a
//     condition whose metadata is missing is false. False => the block must
//     not be scanned.
type BlockMode int

const (
	Must BlockMode = iota
	May
)

func BlockEval(b *bs.DataBlockMetadata, q *bs.QueryPrefilter, mode BlockMode) bool {
	if q == nil || q.Expression == nil {
		return true
	}
	return blockExpr(b, q.Expression, mode)
}

func blockExpr(b *bs.DataBlockMetadata, e *bs.PrefilterExpression, mode BlockMode) bool {
	if e == nil {
		return true
	}
	switch e.ExpressionType {
	case bs.PrefilterExpressionCondition:
		if e.Condition == nil {
			return true
		}
		c := e.Condition
		switch c.ConditionType {
		case bs.PrefilterConditionPartition:
			if c.PartitionCondition == nil {
				return true
			}
			if b.PartitionID == "" {
				return false
			}
			if mode == May {
				return true
			}
			return StringSatisfies(b.PartitionID, *c.PartitionCondition)
		case bs.PrefilterConditionMinMax:
			if c.MinMaxCondition == nil {
				return true
			}
			idx, ok := b.MinMaxIndexes[c.MinMaxFieldName]
			if !ok {
				return false
			}
			if mode == May {
				return true
			}
			return rangeSatisfies(idx, *c.MinMaxCondition)
		}
		if mode == May {
			return true // unknown condition kind: no claim either way
		}
		return false
	case bs.PrefilterExpressionAnd:
		for i := range e.Children {
			if !blockExpr(b, &e.Children[i], mode) {
				return false
			}
		}
		return true
	case bs.PrefilterExpressionOr:
		for i := range e.Children {
			if blockExpr(b, &e.Children[i], mode) {
				return true
			}
		}
		return false
	}
	if mode == May {
		return true
	}
	return false
}

// rangeSatisfies: could some value v in the block's range — where a bound at
// an int64 extreme means "unbounded on that side" — satisfy the condition?
// This is the weakest block-level test that never prunes a satisfying row;
// Must uses it, so a block is only *required* when the range provably
// intersects the condition.
func rangeSatisfies(idx bs.MinMaxIndex, c bs.NumericCondition) bool {
	lo, hi := idx.Min, idx.Max
	switch c.Operator {
	case bs.OpEqual:
		return lo <= c.Value && c.Value <= hi
	case bs.OpNotEqual:
		return !(lo == c.Value && hi == c.Value) || lo == math.MinInt64 || hi == math.MaxInt64
	case bs.OpGreaterThan:
		return hi > c.Value || hi == math.MaxInt64
	case bs.OpGreaterThanEqual:
		return hi >= c.Value
	case bs.OpLessThan:
		return lo < c.Value || lo == math.MinInt64
	case bs.OpLessThanEqual:
		return lo <= c.Value
	case bs.OpIn:
		for _, x := range c.Values {
			if lo <= x && x <= hi {
				return true
			}
		}
		return false
	case bs.OpNotIn:
		return true
	case bs.OpBetween:
		return lo <= c.Max && c.Min <= hi
	case bs.OpNotBetween:
		return lo < c.Min || hi > c.Max || lo == math.MinInt64 || hi == math.MaxInt64
	}
	return false
}
