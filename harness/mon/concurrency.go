package mon

import (
	"context"
	"fmt"
	"strings"
	"sync"
	"time"

	bs "github.com/danthegoodman1/bloomsearch"

	"verifharness/core"
	"verifharness/gen"
	"verifharness/stores"
	"verifharness/world"
)

func init() {
	Register(&Check{
		Spec: core.Spec{ID: "C22", Level: "exploration",
			Rule:        "case = data set of 8-60 files behind an instrumented DataStore whose Reads sleep 0.2-2 ms (so they overlap) and keep an in-flight gauge; every fourth data set also holds 2-5 externally written files whose block filter sections are laid out in the reverse of the row-data order (no forward read covers two of them, so a file's filter pass is a series of reads); phase A runs 2-32 concurrent queries on one engine with MaxQueryConcurrency in {1,2,3,4,8} and checks max in-flight Reads <= MaxQueryConcurrency; phase B parks 1-8 queries whose consumers never call Next (enough matches to fill their row channels) and requires every other query to complete (bounded progress, stuck detector); under -race with PRNG delays at the tagged schedule points; non-trivial = phase in which >= 2 Reads overlapped or a stalled query was parked with a full row channel; distinct = distinct (data set, concurrency, query count, phase)",
			Assumptions: []string{"the gauge counts DataStore Read calls in progress on handles opened by queries (no merge or inventory runs during the window)", "bounded progress as in C20"},
			Floors:      map[string]int64{"phaseA_runs": 20, "phaseB_runs": 20, "reads_observed": 2000, "runs_with_overlap": 10, "cases_with_multi_chunk_filter_regions": 4}},
		Cases:       func(t string) int { return nQueries(t, 32, 800) },
		Run:         runC22,
		RaceMatters: true,
	})
}

func runC22(rc *RunCtx, i int) {
	r := rc.CaseRand(i)
	caseID := fmt.Sprintf("%s%d_%d", strings.ToLower(rc.ID), rc.Seed, i)
	v := gen.NewVocab(r.Split("vocab"))
	tok := gen.Tokenizers[0]
	w := world.New(caseID, world.StoreMem, v, tok)
	log := stores.NewLog(&stores.Clock{})
	w.Instrument(log)
	defer w.Close()
	spec := gen.PickEngineSpec(r.Split("spec"), v, tok)
	spec.Part = gen.PartFunc{Name: "none"}
	spec.Partition = "none"
	spec.RGRows = 100000
	spec.RGBytes = 10 << 20
	spec.BufRows = core.Pick(r, []int{15, 30, 60})
	spec.BufBytes = 1 << 20
	spec.QueryConc = core.Pick(r, []int{1, 1, 2, 3, 4, 8})
	spec.Compression = core.Pick(r, []string{"none", "snappy"})
	if _, err := w.AddEngine(spec); err != nil {
		rc.Violate(i, "scenario-failed", "", err.Error(), nil)
		return
	}
	total := r.Range(500, 1100)
	rr := r.Split("rows")
	for total > 0 {
		n := spec.BufRows
		var recs []*world.RowRec
		for k := 0; k < n; k++ {
			recs = append(recs, w.NewRow(rr, 0))
		}
		if err := w.IngestSync(0, [][]*world.RowRec{recs}); err != nil {
			rc.Violate(i, "scenario-failed", "", err.Error(), nil)
			return
		}
		total -= n
	}
	bigRegions := i%4 == 3
	if bigRegions {
		// externally written files whose block filter regions span several read chunks: the
		// filter pass of one file is then a series of reads, each of which counts
		w.ExtReverseSections = true
		for k, nf := 0, r.Range(2, 5); k < nf; k++ {
			if _, err := w.AddExtFile(r.Split(fmt.Sprint("bigregion", k)), 0, r.Range(12, 40), 0); err != nil {
				rc.Violate(i, "scenario-failed", "", err.Error(), nil)
				return
			}
		}
		rc.Res.Count("cases_with_multi_chunk_filter_regions", 1)
	}
	stored := 0
	for _, rec := range w.StoredRecs() {
		stored += rec.Count
	}
	e := w.Eng[0]
	pm := installPoints(r.Split("points"), i%2 == 1, 500)
	defer pm.uninstall(rc.Res)
	dr := r.Split("delay")
	var dmu sync.Mutex
	w.IData.ReadDelay = func() time.Duration {
		dmu.Lock()
		defer dmu.Unlock()
		return time.Duration(dr.Range(200, 2000)) * time.Microsecond
	}
	desc := map[string]any{"case": caseID, "max_query_concurrency": spec.QueryConc, "rows": stored, "files": len(w.Mem.Pointers())}

	// ---- phase A: in-flight read gauge
	nq := r.Range(2, 32)
	if bigRegions {
		nq = r.Range(3, 24)
	}
	w.IData.MaxInflight.Store(0)
	reads0 := log.Count("Read")
	var wg sync.WaitGroup
	var emu sync.Mutex
	var qerrs []string
	doneA := make(chan struct{})
	for k := 0; k < nq; k++ {
		wg.Add(1)
		q := bs.NewQuery().Field("_vid").Build()
		if k%3 == 1 {
			q = &bs.Query{}
		}
		// a quarter of the queries are cancelled or closed part-way (their workers may be
		// waiting for a slot at that moment); the gauge must not notice
		abandonAfter := time.Duration(-1)
		if k%4 == 2 {
			abandonAfter = time.Duration(r.Range(0, 4000)) * time.Microsecond
		}
		closeIt := k%8 == 2
		go func() {
			defer wg.Done()
			if abandonAfter >= 0 {
				ctx, cancel := context.WithCancel(context.Background())
				defer cancel()
				rs, err := e.Query(ctx, q)
				if err != nil {
					return
				}
				time.Sleep(abandonAfter)
				if closeIt {
					rs.Close()
				} else {
					cancel()
				}
				for rs.Next() {
				}
				rs.Close()
				rc.Res.Count("queries_abandoned_midway", 1)
				return
			}
			res := world.RunQuery(context.Background(), e, q)
			emu.Lock()
			defer emu.Unlock()
			if res.QErr != nil || res.Err != nil {
				qerrs = append(qerrs, fmt.Sprintf("%v %v", res.QErr, res.Err))
			} else if len(res.Rows) != stored {
				qerrs = append(qerrs, fmt.Sprintf("returned %d of %d rows", len(res.Rows), stored))
			}
		}()
	}
	go func() { wg.Wait(); close(doneA) }()
	switch verdict := awaitProgress(doneA); {
	case verdict == "":
	case strings.HasPrefix(verdict, "stuck:"):
		rc.Violate(i, "queries-stuck", "", fmt.Sprintf("%d concurrent queries did not complete", nq), map[string]any{"data": desc, "dump": strings.TrimPrefix(verdict, "stuck:")})
		return
	default:
		rc.Res.Inconc("phase A watchdog with changing stacks")
		return
	}
	rc.Res.Eval(1)
	rc.Res.Count("phaseA_runs", 1)
	maxIn := w.IData.MaxInflight.Load()
	nreads := int64(log.Count("Read") - reads0)
	rc.Res.Count("reads_observed", nreads)
	rc.Res.Max("max.inflight_reads_seen", maxIn)
	rc.Res.Count(fmt.Sprintf("conc%d.max_inflight_%d", spec.QueryConc, maxIn), 1)
	if maxIn >= 2 {
		rc.Res.Count("runs_with_overlap", 1)
		rc.Res.Nontrivial(caseID, "A", nq)
	}
	if len(qerrs) > 0 {
		rc.Violate(i, "concurrent-query-wrong", "", qerrs[0], desc)
		return
	}
	if maxIn > int64(spec.QueryConc) {
		rc.Violate(i, "too-many-inflight-reads", "", fmt.Sprintf("%d DataStore reads were in progress at once with MaxQueryConcurrency = %d (%d concurrent queries)", maxIn, spec.QueryConc, nq), desc)
		return
	}

	// ---- phase B: stalled consumers starve no one
	ns := r.Range(1, 8)
	// In every second case the MetaStore iterations of the stalled queries are themselves slow:
	// each pauses (honouring its context) after a few files, so the stalled query is unfinished
	// with nothing queued for its workers: a worker that wrongly keeps a slot parks on it.
	iterGate := stores.NewGate(true)
	defer iterGate.Open()
	var gmu sync.Mutex
	stalling := i%2 == 0
	stalledIters := map[int]int{} // iteration seq -> yields so far
	pauseAfter := r.Range(5, 9)
	if stalling {
		log.Plan = &stores.Plan{Decide: func(c *stores.Call) stores.Action {
			gmu.Lock()
			defer gmu.Unlock()
			switch c.Kind {
			case "Iter":
				if stalling {
					stalledIters[c.Seq] = 0
				}
			case "IterYield":
				if n, ok := stalledIters[c.Handle]; ok {
					stalledIters[c.Handle] = n + 1
					if n >= pauseAfter {
						return stores.Action{Gate: iterGate}
					}
				}
			}
			return stores.Action{}
		}}
		defer func() { log.Plan = nil }()
		rc.Res.Count("phaseB_with_paused_iterators", 1)
	}
	var stalled []*bs.Results
	for k := 0; k < ns; k++ {
		rs, err := e.Query(context.Background(), &bs.Query{})
		if err != nil {
			rc.Violate(i, "query-refused", "", err.Error(), desc)
			return
		}
		stalled = append(stalled, rs)
	}
	// let the stalled queries fill their row channels: wait until each has
	// matched at least 4 full batches or everything it can (stable state)
	parked := 0
	last := make([]int64, ns)
	stable := 0
	for t := 0; t < 600 && stable < 15; t++ {
		changed := false
		for k, rs := range stalled {
			if m := rs.Stats().RowsMatched; m != last[k] {
				last[k] = m
				changed = true
			}
		}
		if changed {
			stable = 0
		} else {
			stable++
		}
		time.Sleep(10 * time.Millisecond)
	}
	for k := range stalled {
		// parked = delivered something, stopped making progress, and is not finished
		if last[k] > 0 && last[k] < int64(stored) {
			parked++
		}
	}
	gmu.Lock()
	stalling = false // iterations started from here on belong to the other queries
	gmu.Unlock()
	rc.Res.Count("stalled_queries_parked", int64(parked))
	// some of the stalled consumers now read a little (so hand-offs that were blocked on the full
	// buffer complete) and stop again for good; the pipeline settles once more
	if i%2 == 0 {
		for k, rs := range stalled {
			if k%2 == 0 {
				// never more than what has already been matched: the rest may sit behind a
				// paused iterator, and Next would wait for it
				for n := min(int64(r.Range(1, 200)), last[k]); n > 0 && rs.Next(); n-- {
				}
				rc.Res.Count("stalled_consumers_read_a_little", 1)
			}
		}
		stable = 0
		for t := 0; t < 300 && stable < 10; t++ {
			changed := false
			for k, rs := range stalled {
				if m := rs.Stats().RowsMatched; m != last[k] {
					last[k] = m
					changed = true
				}
			}
			if changed {
				stable = 0
			} else {
				stable++
			}
			time.Sleep(10 * time.Millisecond)
		}
	}
	others := r.Range(1, 6)
	doneB := make(chan struct{})
	var wg2 sync.WaitGroup
	qerrs = nil
	for k := 0; k < others; k++ {
		wg2.Add(1)
		go func() {
			defer wg2.Done()
			res := world.RunQuery(context.Background(), e, bs.NewQuery().Field("_vid").Build())
			emu.Lock()
			defer emu.Unlock()
			if res.QErr != nil || res.Err != nil || len(res.Rows) != stored {
				qerrs = append(qerrs, fmt.Sprintf("%v %v rows=%d/%d", res.QErr, res.Err, len(res.Rows), stored))
			}
		}()
	}
	go func() { wg2.Wait(); close(doneB) }()
	verdict := awaitProgress(doneB)
	rc.Res.Eval(1)
	rc.Res.Count("phaseB_runs", 1)
	if parked > 0 {
		rc.Res.Nontrivial(caseID, "B", ns, others)
	}
	switch {
	case verdict == "":
	case strings.HasPrefix(verdict, "stuck:"):
		rc.Violate(i, "starved-by-stalled-consumer", "", fmt.Sprintf("%d queries whose consumers stopped reading kept %d other queries from completing (MaxQueryConcurrency = %d)", ns, others, spec.QueryConc), map[string]any{"data": desc, "dump": strings.TrimPrefix(verdict, "stuck:")})
		for _, rs := range stalled {
			go rs.Close()
		}
		return
	default:
		rc.Res.Inconc("phase B watchdog with changing stacks")
	}
	for _, rs := range stalled {
		rs.Close()
	}
	if len(qerrs) > 0 {
		rc.Violate(i, "concurrent-query-wrong", "", qerrs[0], desc)
		return
	}
	if mx := w.IData.MaxInflight.Load(); mx > int64(spec.QueryConc) {
		rc.Violate(i, "too-many-inflight-reads", "", fmt.Sprintf("%d reads in progress at once with MaxQueryConcurrency = %d while consumers were stalled", mx, spec.QueryConc), desc)
		return
	}
	if i < 3 {
		rc.Res.Sample(map[string]any{"data": desc, "phaseA_queries": nq, "max_inflight_reads": maxIn, "reads": nreads, "stalled": ns, "parked_full": parked, "others": others})
	}
}
