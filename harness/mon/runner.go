// Package mon holds the per-property monitors and the process runner.
package mon

import (
	"bytes"
	"encoding/json"
	"fmt"
	"os"
	"os/exec"
	"path/filepath"
	"regexp"
	"runtime"
	"sort"
	"strings"
	"sync"
	"time"

	"verifharness/core"
)

// RunCtx is what a case sees.
type RunCtx struct {
	ID   string
	Tier string
	Seed int64
	Res  *core.Result
	Root *core.Rand
}

// CaseRand is the PRNG of one case: a fixed function of (seed, check, case).
func (rc *RunCtx) CaseRand(i int) *core.Rand { return rc.Root.Split(rc.ID, i) }

func (rc *RunCtx) CaseID(i int) string { return fmt.Sprintf("%s.s%d.c%d", rc.ID, rc.Seed, i) }

func (rc *RunCtx) Violate(i int, kind, sig, msg string, witness any) {
	rc.Res.Violate(core.Violation{Property: rc.ID, Kind: kind, Signature: sig, Case: rc.CaseID(i), Message: msg, Witness: witness})
}

// Check describes one registered property check.
type Check struct {
	Spec core.Spec
	// Cases returns the number of cases of a tier (a fixed number, never a
	// time budget).
	Cases func(tier string) int
	// Run executes case i.
	Run func(rc *RunCtx, i int)
	// Post runs once in the parent after all children reported (optional).
	Post func(rc *RunCtx)
	// Children is the number of worker processes (default: 16 or #cases).
	Children int
	// Parallel is the number of cases a child runs concurrently (default 1).
	Parallel int
	// ChildTimeout is the watchdog per child; firing is inconclusive.
	ChildTimeout func(tier string) time.Duration
	// NoStdCapture leaves the child's fd 1/2 to the check itself (C27).
	RaceMatters bool
}

var Registry = map[string]*Check{}

func Register(c *Check) { Registry[c.Spec.ID] = c }

func scratch(parts ...string) string {
	p := filepath.Join(append([]string{core.VerifDir, ".scratch"}, parts...)...)
	os.MkdirAll(filepath.Dir(p), 0o755)
	return p
}

// Main is the parent: schedule children, aggregate, write evidence.
func Main(id, tier string) int {
	chk := Registry[id]
	if chk == nil {
		fmt.Fprintf(os.Stderr, "unknown check %s\n", id)
		return 2
	}
	start := time.Now()
	seed := core.SeedFromEnv()
	n := chk.Cases(tier)
	children := chk.Children
	if children == 0 {
		children = runtime.NumCPU()
		if children > 16 {
			children = 16
		}
	}
	if children > n {
		children = n
	}
	if children < 1 {
		children = 1
	}
	timeout := 20 * time.Minute
	if tier == "thorough" {
		// a generous wall-clock watchdog (its firing is inconclusive, never a verdict): thorough
		// tiers are sized for well under half an hour on an idle 16-core machine
		timeout = 2 * time.Hour
	}
	if chk.ChildTimeout != nil {
		timeout = chk.ChildTimeout(tier)
	}
	res := core.NewResult()
	self, _ := os.Executable()
	runTag := fmt.Sprintf("%s-%s-%d-%d", id, tier, seed, os.Getpid())
	var wg sync.WaitGroup
	var mu sync.Mutex
	for s := 0; s < children; s++ {
		wg.Add(1)
		go func(s int) {
			defer wg.Done()
			out := scratch("run", runTag, fmt.Sprintf("res-%d.json", s))
			logPath := scratch("run", runTag, fmt.Sprintf("log-%d.txt", s))
			racePath := scratch("run", runTag, fmt.Sprintf("race-%d", s))
			lf, _ := os.Create(logPath)
			cmd := exec.Command(self, "--worker", id, tier, fmt.Sprint(seed), fmt.Sprint(s), fmt.Sprint(children), out)
			cmd.Stdout = lf
			cmd.Stderr = lf
			cmd.Env = append(os.Environ(), "GORACE=halt_on_error=0 log_path="+racePath, "GOTRACEBACK=all")
			if err := cmd.Start(); err != nil {
				mu.Lock()
				res.Inconc("cannot start child: " + err.Error())
				mu.Unlock()
				return
			}
			done := make(chan error, 1)
			go func() { done <- cmd.Wait() }()
			var werr error
			timedOut := false
			select {
			case werr = <-done:
			case <-time.After(timeout):
				timedOut = true
				cmd.Process.Signal(os.Interrupt)
				cmd.Process.Kill()
				werr = <-done
			}
			lf.Close()
			var cr core.Result
			b, rerr := os.ReadFile(out)
			parsed := rerr == nil && json.Unmarshal(b, &cr) == nil
			mu.Lock()
			defer mu.Unlock()
			if parsed {
				res.Merge(&cr)
			}
			if timedOut {
				res.Inconc(fmt.Sprintf("child %d hit the %s watchdog (log %s)", s, timeout, logPath))
			} else if werr != nil || !parsed {
				tail := tailOf(logPath, 6000)
				res.Violate(core.Violation{Property: id, Kind: "child-crash", Signature: "child-crash", Case: fmt.Sprintf("%s.s%d.shard%d", id, seed, s),
					Message: fmt.Sprintf("worker process died (%v); a panic, fatal error or checkptr failure in a case", werr), Witness: tail})
			}
			// race detector reports
			matches, _ := filepath.Glob(racePath + ".*")
			for _, m := range matches {
				rb, _ := os.ReadFile(m)
				for _, rep := range splitRaceReports(string(rb)) {
					res.Count("race_reports", 1)
					res.Violate(core.Violation{Property: id, Kind: "data-race", Signature: "race:" + raceKey(rep), Case: fmt.Sprintf("%s.s%d.shard%d", id, seed, s), Message: "race detector report", Witness: core.Trunc(rep, 8000)})
				}
			}
		}(s)
	}
	wg.Wait()
	rc := &RunCtx{ID: id, Tier: tier, Seed: seed, Res: res, Root: core.NewRand(uint64(seed))}
	if chk.Post != nil {
		chk.Post(rc)
	}
	// dedupe race violations by key
	res.Violations = dedupeViolations(res.Violations)
	res.Counters["children"] = int64(children)
	res.Counters["cases"] = int64(n)
	code := core.Finish(chk.Spec, tier, seed, res, start)
	if code == 0 {
		os.RemoveAll(scratch("run", runTag))
	}
	return code
}

func dedupeViolations(vs []core.Violation) []core.Violation {
	seen := map[string]bool{}
	var out []core.Violation
	for _, v := range vs {
		if v.Kind == "data-race" {
			if seen[v.Signature] {
				continue
			}
			seen[v.Signature] = true
		}
		out = append(out, v)
	}
	return out
}

func tailOf(path string, n int) string {
	b, err := os.ReadFile(path)
	if err != nil {
		return ""
	}
	// keep the head of a panic (first goroutine) rather than the very end
	if i := bytes.Index(b, []byte("panic:")); i >= 0 {
		b = b[i:]
	} else if i := bytes.Index(b, []byte("fatal error:")); i >= 0 {
		b = b[i:]
	}
	if len(b) > n {
		b = b[:n]
	}
	return string(b)
}

func splitRaceReports(s string) []string {
	var out []string
	parts := strings.Split(s, "==================")
	for _, p := range parts {
		if strings.Contains(p, "WARNING: DATA RACE") {
			out = append(out, strings.TrimSpace(p))
		}
	}
	return out
}

var frameRe = regexp.MustCompile(`(?m)^  ([^\s(]+)\(`)

// raceKey dedupes a report by its function names with line numbers stripped.
func raceKey(rep string) string {
	ms := frameRe.FindAllStringSubmatch(rep, -1)
	var fs []string
	for _, m := range ms {
		fs = append(fs, m[1])
	}
	if len(fs) > 6 {
		fs = fs[:6]
	}
	sort.Strings(fs)
	return strings.Join(fs, ",")
}

// Worker is the child: run the shard's cases and write the result file.
func Worker(id, tier string, seed int64, shard, shards int, out string) int {
	chk := Registry[id]
	if chk == nil {
		return 2
	}
	res := core.NewResult()
	rc := &RunCtx{ID: id, Tier: tier, Seed: seed, Res: res, Root: core.NewRand(uint64(seed))}
	n := chk.Cases(tier)
	par := chk.Parallel
	if par < 1 {
		par = 1
	}
	sem := make(chan struct{}, par)
	var wg sync.WaitGroup
	for i := shard; i < n; i += shards {
		sem <- struct{}{}
		wg.Add(1)
		go func(i int) {
			defer wg.Done()
			defer func() { <-sem }()
			chk.Run(rc, i)
		}(i)
	}
	wg.Wait()
	b, _ := json.Marshal(res)
	if err := os.WriteFile(out, b, 0o644); err != nil {
		fmt.Fprintf(os.Stderr, "cannot write result: %v\n", err)
		return 2
	}
	return 0
}

// scratchDir returns (and creates) a directory under /verif/.scratch.
func scratchDir(parts ...string) string {
	p := filepath.Join(append([]string{core.VerifDir, ".scratch"}, parts...)...)
	os.MkdirAll(p, 0o755)
	return p
}

// runWithTimeout runs a helper process under a watchdog.
func runWithTimeout(cmd *exec.Cmd, d time.Duration) error {
	if err := cmd.Start(); err != nil {
		return err
	}
	done := make(chan error, 1)
	go func() { done <- cmd.Wait() }()
	select {
	case err := <-done:
		return err
	case <-time.After(d):
		cmd.Process.Kill()
		<-done
		return fmt.Errorf("watchdog: helper process exceeded %s", d)
	}
}
