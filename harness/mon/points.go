package mon

import (
	"runtime"
	"sync"
	"time"

	bs "github.com/danthegoodman1/bloomsearch"

	"verifharness/core"
)

// pointMon is the handler installed on the package's tagged schedule points:
// it counts hits per point name (evidence shows which points a run reached),
// optionally applies PRNG delays (Gosched or a short sleep), and can call a
// per-name callback (gates, event recording).
type pointMon struct {
	mu    sync.Mutex
	hits  map[string]int64
	rnd   *core.Rand
	delay bool
	maxUs int
	onHit map[string]func()
}

func installPoints(rnd *core.Rand, delay bool, maxUs int) *pointMon {
	p := &pointMon{hits: map[string]int64{}, rnd: rnd, delay: delay, maxUs: maxUs, onHit: map[string]func(){}}
	bs.VerifSetPointHook(p.handle)
	return p
}

func (p *pointMon) on(name string, fn func()) {
	p.mu.Lock()
	p.onHit[name] = fn
	p.mu.Unlock()
}

func (p *pointMon) handle(name string) {
	p.mu.Lock()
	p.hits[name]++
	cb := p.onHit[name]
	var d int
	if p.delay {
		switch p.rnd.Intn(5) {
		case 0:
			d = -1
		case 1:
			d = p.rnd.Range(20, p.maxUs)
		}
	}
	p.mu.Unlock()
	if cb != nil {
		cb()
	}
	if d < 0 {
		runtime.Gosched()
	} else if d > 0 {
		time.Sleep(time.Duration(d) * time.Microsecond)
	}
}

func (p *pointMon) uninstall(res *core.Result) {
	bs.VerifSetPointHook(nil)
	p.mu.Lock()
	defer p.mu.Unlock()
	for k, v := range p.hits {
		res.Count("point."+k, v)
	}
}
