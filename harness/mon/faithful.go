package mon

import (
	"context"
	"encoding/json"
	"fmt"
	"reflect"
	"sort"
	"strings"
	"sync"
	"time"

	bs "github.com/danthegoodman1/bloomsearch"

	"verifharness/core"
	"verifharness/gen"
	"verifharness/world"
)

func init() {
	Register(&Check{
		Spec: core.Spec{ID: "C03", Level: "exploration",
			Rule:        "case = generated scenario (blocks of widely varied sizes, all compressions, escapes/unicode/large and precise numbers/raw JSON) queried by 16-48 concurrent queries under -race (+checkptr) with PRNG delays at the tagged query schedule points, so pooled scan buffers of one size class are recycled between queries while consumers retain rows. Every returned row is compared (reflect.DeepEqual) with the encoding/json round trip of the ingested row when encoding/json can decode it, and fingerprinted at receipt; then the harness deep-mutates half of the retained rows (every string, number, nested map and slice element overwritten) and checks that every other retained row, and a re-query of the same data, still equal their fingerprints/expectations. Every case also stores a run of 3-4 byte-identical rows whose arrays hold objects and arrays (rows derived from one another would share state below the array level). Every fourth case adds 2 blocks of 420-620 rows and an early-termination phase: consumers take 1-700 rows of a condition-less/prefilter-only/field query, then Close, cancel+drain, cancel+Close or Close late from another goroutine, later complete queries re-draw the pooled buffers, and every row a consumer kept must still equal its fingerprint and the round trip. non-trivial = query that returned >= 1 row while another query was in flight; distinct = distinct (scenario, query index)",
			Assumptions: []string{"rows whose marshaled form encoding/json cannot decode into a generic map (e.g. 1e400) are compared by identity of their _vid only"},
			Floors:      map[string]int64{"rows_compared": 5000, "rows_mutated": 1000, "concurrent_queries": 150, "early_terminated_queries": 12, "rows_kept_across_early_termination": 600, "runs_of_identical_rows": 20}},
		Cases:       func(t string) int { return nQueries(t, 24, 400) },
		Run:         runC03,
		RaceMatters: true,
	})
}

// canon is a deterministic deep fingerprint of a materialised row.
func canon(v any, sb *strings.Builder) {
	switch t := v.(type) {
	case map[string]any:
		ks := make([]string, 0, len(t))
		for k := range t {
			ks = append(ks, k)
		}
		sort.Strings(ks)
		sb.WriteByte('{')
		for _, k := range ks {
			fmt.Fprintf(sb, "%q:", k)
			canon(t[k], sb)
			sb.WriteByte(',')
		}
		sb.WriteByte('}')
	case []any:
		sb.WriteByte('[')
		for _, e := range t {
			canon(e, sb)
			sb.WriteByte(',')
		}
		sb.WriteByte(']')
	case string:
		fmt.Fprintf(sb, "s%q", t)
	case float64:
		fmt.Fprintf(sb, "f%v", t)
	case bool:
		fmt.Fprintf(sb, "b%v", t)
	case nil:
		sb.WriteString("null")
	default:
		fmt.Fprintf(sb, "?%T:%v", t, t)
	}
}

func canonOf(v any) string {
	var sb strings.Builder
	canon(v, &sb)
	return sb.String()
}

// deepMutate overwrites everything reachable from a returned row.
func deepMutate(v any) {
	switch t := v.(type) {
	case map[string]any:
		for k, e := range t {
			deepMutate(e)
			switch e.(type) {
			case string:
				t[k] = "MUTATED"
			case float64:
				t[k] = -12345.678
			case bool:
				t[k] = !e.(bool)
			case nil:
				t[k] = "was-null"
			}
		}
		t["__mutated"] = true
	case []any:
		for i, e := range t {
			deepMutate(e)
			switch e.(type) {
			case string:
				t[i] = "MUTATED"
			case float64:
				t[i] = -1.0
			case bool:
				t[i] = true
			case nil:
				t[i] = 0.0
			}
		}
	}
}

func runC03(rc *RunCtx, i int) {
	r := rc.CaseRand(i)
	o := world.BuildOpts{MoreMerge: i%3 == 0, MaxRows: 160}
	c, err := buildDP(rc, i, o, false)
	if err != nil {
		rc.Violate(i, "scenario-failed", "", err.Error(), nil)
		return
	}
	defer c.w.Close()
	// Half of the cases add an engine that writes a few very large blocks (several
	// hundred rows each, one size class), so that a block delivers several full
	// row batches before its scan ends and pooled scan buffers are re-drawn by
	// later queries: the early-termination phase below needs both.
	bigEng := -1
	if i%4 == 1 {
		spec := c.w.Specs[0]
		spec.Part = gen.PartFunc{Name: "const:big", Fn: func(map[string]any) string { return "big" }}
		spec.Partition = "const:big"
		spec.RGRows, spec.RGBytes = 1<<30, 1<<30
		spec.BufRows, spec.BufBytes = 1<<30, 1<<30
		spec.QueryConc = core.Pick(r, []int{1, 2, 4, 8})
		ei, err := c.w.AddEngine(spec)
		if err != nil {
			rc.Violate(i, "scenario-failed", "", err.Error(), nil)
			return
		}
		bigEng = ei
		br := r.Split("bigrows")
		for f := 2; f > 0; f-- {
			var batches [][]*world.RowRec
			for left := r.Range(420, 620); left > 0; {
				n := min(left, r.Range(40, 200))
				var recs []*world.RowRec
				for k := 0; k < n; k++ {
					recs = append(recs, c.w.NewRow(br, ei))
				}
				batches = append(batches, recs)
				left -= n
			}
			if err := c.w.IngestSync(ei, batches); err != nil {
				rc.Violate(i, "scenario-failed", "", "big-block ingest: "+err.Error(), nil)
				return
			}
		}
		rc.Res.Count("cases_with_big_blocks", 1)
	}
	// A run of byte-identical rows (the same row ingested several times in one batch, as
	// heartbeat-style logs do) whose arrays hold objects and arrays: if the engine derives one
	// returned row from another, the shared parts sit below the array level.
	{
		tr := r.Split("twins")
		twin := c.w.NewRowWith(tr, 0, func(row map[string]any) {
			row["checks"] = []any{map[string]any{"name": "disk", "ok": true}, map[string]any{"name": "net", "peers": []any{"a", "b", map[string]any{"id": 1.0}}}}
			row["codes"] = []any{[]any{200.0, 204.0}, []any{301.0}, []any{[]any{"deep"}}}
		})
		recs := []*world.RowRec{twin, twin, twin}
		if tr.Bool() {
			recs = append(recs, c.w.NewRow(tr, 0), twin)
		}
		if err := c.w.IngestSync(0, [][]*world.RowRec{recs}); err != nil {
			rc.Violate(i, "scenario-failed", "", "twin rows: "+err.Error(), nil)
			return
		}
		rc.Res.Count("runs_of_identical_rows", 1)
	}
	pm := installPoints(r.Split("points"), true, 400)
	defer pm.uninstall(rc.Res)
	// expectation per vid: the encoding/json round trip
	type expect struct {
		m    map[string]any
		ok   bool
		dups bool
	}
	exp := map[string]*expect{}
	for _, rec := range c.w.StoredRecs() {
		e := &expect{dups: rec.Doc.DupKeys}
		var m map[string]any
		if err := json.Unmarshal(rec.JSON, &m); err == nil {
			e.m, e.ok = m, true
		}
		exp[rec.VID] = e
	}
	facts := c.w.Facts()
	nq := r.Range(16, 48)
	if bigEng >= 0 {
		nq = r.Range(4, 8)
	}
	type got struct {
		row map[string]any
		fp  string
		vid string
	}
	var mu sync.Mutex
	var all []*got
	var violation string
	var vsig string
	var vwit any
	var wg sync.WaitGroup
	qr := r.Split("queries")
	queries := make([]*bs.Query, nq)
	for k := range queries {
		switch qr.Intn(3) {
		case 0:
			queries[k] = &bs.Query{}
		case 1:
			queries[k] = bs.NewQuery().Field("_vid").Build()
		default:
			q := facts.Query(qr)
			q.Regex = nil
			queries[k] = q
		}
	}
	for k := 0; k < nq; k++ {
		wg.Add(1)
		go func(k int) {
			defer wg.Done()
			e := c.w.Eng[k%len(c.w.Eng)]
			ctx, cancel := context.WithTimeout(context.Background(), core.Patience)
			defer cancel()
			rs, err := e.Query(ctx, queries[k])
			if err != nil {
				return
			}
			defer rs.Close()
			var mine []*got
			for rs.Next() {
				row := rs.Row()
				g := &got{row: row, fp: canonOf(row), vid: world.VidOfRow(row)}
				mine = append(mine, g)
			}
			if rs.Err() != nil {
				mu.Lock()
				if violation == "" {
					violation, vwit = "query failed on healthy stores: "+rs.Err().Error(), queryJSON(queries[k])
				}
				mu.Unlock()
			}
			mu.Lock()
			all = append(all, mine...)
			mu.Unlock()
			rc.Res.Count("concurrent_queries", 1)
			if len(mine) > 0 {
				rc.Res.Nontrivial(c.d.Case, k)
			}
		}(k)
	}
	wg.Wait()
	rc.Res.Eval(1)
	check := func(g *got, phase string) bool {
		e := exp[g.vid]
		if e == nil {
			violation, vwit = "returned row was never ingested: "+g.vid, nil
			return false
		}
		rc.Res.Count("rows_compared", 1)
		if e.ok && !reflect.DeepEqual(e.m, g.row) {
			if e.dups {
				vsig = "raw-json-duplicate-keys"
			} else {
				vsig = ""
			}
			wb, _ := json.Marshal(e.m)
			violation = fmt.Sprintf("%s: returned row differs from the JSON round trip of the ingested row %s", phase, g.vid)
			vwit = map[string]any{"expected": core.Trunc(string(wb), 1500), "returned": core.Trunc(canonOf(g.row), 1500), "stored_json": core.Trunc(string(c.w.Rows[g.vid].JSON), 1500)}
			return false
		}
		return true
	}
	report := func() {
		rc.Violate(i, "row-not-faithful-or-shared", vsig, violation, map[string]any{"scenario": c.d, "detail": vwit})
	}
	if violation != "" {
		report()
		return
	}
	knownSeen := false
	for _, g := range all {
		if !check(g, "at receipt") {
			if vsig != "" {
				if !knownSeen {
					report() // known-finding signature: report once per case, keep going
				}
				violation, knownSeen = "", true
				continue
			}
			report()
			return
		}
	}
	// mutate half, the rest must not notice
	for k, g := range all {
		if k%2 == 0 {
			deepMutate(g.row)
			rc.Res.Count("rows_mutated", 1)
		}
	}
	for k, g := range all {
		if k%2 == 1 {
			if fp := canonOf(g.row); fp != g.fp {
				violation, vsig = fmt.Sprintf("row %s changed after another returned row was mutated: returned rows share mutable state", g.vid), ""
				vwit = map[string]any{"before": core.Trunc(g.fp, 1000), "after": core.Trunc(fp, 1000)}
				report()
				return
			}
		}
	}
	// later queries are unaffected by the mutation of earlier results
	for _, e := range c.w.Eng[:1] {
		ctx, cancel := context.WithTimeout(context.Background(), core.Patience)
		res := world.RunQuery(ctx, e, &bs.Query{})
		cancel()
		if res.QErr != nil || res.Err != nil {
			violation, vwit = fmt.Sprintf("re-query failed: %v %v", res.QErr, res.Err), nil
			report()
			return
		}
		for _, row := range res.Rows {
			g := &got{row: row, vid: world.VidOfRow(row)}
			if !check(g, "re-query after mutating earlier results") {
				if vsig != "" {
					if !knownSeen {
						report()
					}
					violation = ""
					continue
				}
				report()
				return
			}
		}
	}
	// Early-termination phase: consumers keep the rows they already received from
	// queries they then Close, cancel or abandon mid-block, while later queries scan
	// blocks of the same size class. Rows the caller holds must stay what they were.
	if bigEng >= 0 {
		e := c.w.Eng[bigEng]
		er := r.Split("early")
		var kept []*got
		for round, rounds := 0, er.Range(2, 4); round < rounds; round++ {
			var ewg sync.WaitGroup
			var emu sync.Mutex
			type plan struct {
				q    *bs.Query
				take int
				how  int
			}
			var plans []plan
			for k, n := 0, er.Range(2, 5); k < n; k++ {
				var q *bs.Query
				switch er.Intn(4) {
				case 0:
					q = nil
				case 1:
					q = &bs.Query{}
				case 2:
					q = bs.NewQuery().Field("_vid").Build()
				default:
					q = bs.NewQuery().MatchPrefilter(bs.Partition(bs.PartitionEquals("big"))).Build()
				}
				plans = append(plans, plan{q, er.Range(1, 700), er.Intn(4)})
			}
			for _, p := range plans {
				ewg.Add(1)
				go func(p plan) {
					defer ewg.Done()
					ctx, cancel := context.WithCancel(context.Background())
					defer cancel()
					rs, err := e.Query(ctx, p.q)
					if err != nil {
						return
					}
					var mine []*got
					for len(mine) < p.take && rs.Next() {
						row := rs.Row()
						mine = append(mine, &got{row: row, fp: canonOf(row), vid: world.VidOfRow(row)})
					}
					switch p.how {
					case 0:
						rs.Close()
					case 1:
						cancel()
						for rs.Next() {
						}
					case 2:
						cancel()
						rs.Close()
					default:
						go func() { time.Sleep(2 * time.Millisecond); rs.Close() }()
					}
					emu.Lock()
					kept = append(kept, mine...)
					emu.Unlock()
					rc.Res.Count("early_terminated_queries", 1)
					rc.Res.Count("rows_kept_across_early_termination", int64(len(mine)))
				}(p)
			}
			ewg.Wait()
			// later complete scans re-draw the pooled buffers
			for k, n := 0, er.Range(4, 10); k < n; k++ {
				ewg.Add(1)
				q := queries[er.Intn(len(queries))]
				go func() {
					defer ewg.Done()
					ctx, cancel := context.WithTimeout(context.Background(), core.Patience)
					defer cancel()
					res := world.RunQuery(ctx, e, q)
					emu.Lock()
					for _, row := range res.Rows {
						kept = append(kept, &got{row: row, fp: canonOf(row), vid: world.VidOfRow(row)})
					}
					emu.Unlock()
				}()
			}
			ewg.Wait()
			for _, g := range kept {
				if fp := canonOf(g.row); fp != g.fp {
					violation, vsig = fmt.Sprintf("row %s, kept by its consumer from a query that was then closed/cancelled early or from a completed query, changed while later queries ran (round %d): returned rows share state with engine buffers", g.vid, round), ""
					vwit = map[string]any{"at_receipt": core.Trunc(g.fp, 1000), "now": core.Trunc(fp, 1000)}
					report()
					return
				}
				if !check(g, "kept across early termination") {
					if vsig != "" {
						violation = ""
						continue
					}
					report()
					return
				}
			}
			// keep the set bounded: retain the early-terminated rows and a slice of the rest
			if len(kept) > 6000 {
				kept = kept[:6000]
			}
		}
	}
	if i < 3 {
		rc.Res.Sample(map[string]any{"scenario": c.d, "concurrent_queries": nq, "rows_retained": len(all)})
	}
}
