package mon

import (
	"context"
	"encoding/json"
	"fmt"
	"reflect"
	"sort"
	"strings"
	"sync"
	"time"

	bs "github.com/danthegoodman1/bloomsearch"

	"verifharness/core"
	"verifharness/world"
)

func init() {
	Register(&Check{
		Spec: core.Spec{ID: "C03", Level: "exploration",
			Rule:        "case = generated scenario (blocks of widely varied sizes, all compressions, escapes/unicode/large and precise numbers/raw JSON) queried by 16-48 concurrent queries under -race (+checkptr) with PRNG delays at the tagged query schedule points, so pooled scan buffers of one size class are recycled between queries while consumers retain rows. Every returned row is compared (reflect.DeepEqual) with the encoding/json round trip of the ingested row when encoding/json can decode it, and fingerprinted at receipt; then the harness deep-mutates half of the retained rows (every string, number, nested map and slice element overwritten) and checks that every other retained row, and a re-query of the same data, still equal their fingerprints/expectations. non-trivial = query that returned >= 1 row while another query was in flight; distinct = distinct (scenario, query index)",
			Assumptions: []string{"rows whose marshaled form encoding/json cannot decode into a generic map (e.g. 1e400) are compared by identity of their _vid only"},
			Floors:      map[string]int64{"rows_compared": 5000, "rows_mutated": 1000, "concurrent_queries": 300}},
		Cases:       func(t string) int { return nQueries(t, 24, 800) },
		Run:         runC03,
		RaceMatters: true,
	})
}

// canon is a deterministic deep fingerprint of a materialised row.
func canon(v any, sb *strings.Builder) {
	switch t := v.(type) {
	case map[string]any:
		ks := make([]string, 0, len(t))
		for k := range t {
			ks = append(ks, k)
		}
		sort.Strings(ks)
		sb.WriteByte('{')
		for _, k := range ks {
			fmt.Fprintf(sb, "%q:", k)
			canon(t[k], sb)
			sb.WriteByte(',')
		}
		sb.WriteByte('}')
	case []any:
		sb.WriteByte('[')
		for _, e := range t {
			canon(e, sb)
			sb.WriteByte(',')
		}
		sb.WriteByte(']')
	case string:
		fmt.Fprintf(sb, "s%q", t)
	case float64:
		fmt.Fprintf(sb, "f%v", t)
	case bool:
		fmt.Fprintf(sb, "b%v", t)
	case nil:
		sb.WriteString("null")
	default:
		fmt.Fprintf(sb, "?%T:%v", t, t)
	}
}

func canonOf(v any) string {
	var sb strings.Builder
	canon(v, &sb)
	return sb.String()
}

// deepMutate overwrites everything reachable from a returned row.
func deepMutate(v any) {
	switch t := v.(type) {
	case map[string]any:
		for k, e := range t {
			deepMutate(e)
			switch e.(type) {
			case string:
				t[k] = "MUTATED"
			case float64:
				t[k] = -12345.678
			case bool:
				t[k] = !e.(bool)
			case nil:
				t[k] = "was-null"
			}
		}
		t["__mutated"] = true
	case []any:
		for i, e := range t {
			deepMutate(e)
			switch e.(type) {
			case string:
				t[i] = "MUTATED"
			case float64:
				t[i] = -1.0
			case bool:
				t[i] = true
			case nil:
				t[i] = 0.0
			}
		}
	}
}

func runC03(rc *RunCtx, i int) {
	r := rc.CaseRand(i)
	o := world.BuildOpts{MoreMerge: i%3 == 0, MaxRows: 160}
	c, err := buildDP(rc, i, o, false)
	if err != nil {
		rc.Violate(i, "scenario-failed", "", err.Error(), nil)
		return
	}
	defer c.w.Close()
	pm := installPoints(r.Split("points"), true, 400)
	defer pm.uninstall(rc.Res)
	// expectation per vid: the encoding/json round trip
	type expect struct {
		m    map[string]any
		ok   bool
		dups bool
	}
	exp := map[string]*expect{}
	for _, rec := range c.w.StoredRecs() {
		e := &expect{dups: rec.Doc.DupKeys}
		var m map[string]any
		if err := json.Unmarshal(rec.JSON, &m); err == nil {
			e.m, e.ok = m, true
		}
		exp[rec.VID] = e
	}
	facts := c.w.Facts()
	nq := r.Range(16, 48)
	type got struct {
		row map[string]any
		fp  string
		vid string
	}
	var mu sync.Mutex
	var all []*got
	var violation string
	var vsig string
	var vwit any
	var wg sync.WaitGroup
	qr := r.Split("queries")
	queries := make([]*bs.Query, nq)
	for k := range queries {
		switch qr.Intn(3) {
		case 0:
			queries[k] = &bs.Query{}
		case 1:
			queries[k] = bs.NewQuery().Field("_vid").Build()
		default:
			q := facts.Query(qr)
			q.Regex = nil
			queries[k] = q
		}
	}
	for k := 0; k < nq; k++ {
		wg.Add(1)
		go func(k int) {
			defer wg.Done()
			e := c.w.Eng[k%len(c.w.Eng)]
			ctx, cancel := context.WithTimeout(context.Background(), 120*time.Second)
			defer cancel()
			rs, err := e.Query(ctx, queries[k])
			if err != nil {
				return
			}
			defer rs.Close()
			var mine []*got
			for rs.Next() {
				row := rs.Row()
				g := &got{row: row, fp: canonOf(row), vid: world.VidOfRow(row)}
				mine = append(mine, g)
			}
			if rs.Err() != nil {
				mu.Lock()
				if violation == "" {
					violation, vwit = "query failed on healthy stores: "+rs.Err().Error(), queryJSON(queries[k])
				}
				mu.Unlock()
			}
			mu.Lock()
			all = append(all, mine...)
			mu.Unlock()
			rc.Res.Count("concurrent_queries", 1)
			if len(mine) > 0 {
				rc.Res.Nontrivial(c.d.Case, k)
			}
		}(k)
	}
	wg.Wait()
	rc.Res.Eval(1)
	check := func(g *got, phase string) bool {
		e := exp[g.vid]
		if e == nil {
			violation, vwit = "returned row was never ingested: "+g.vid, nil
			return false
		}
		rc.Res.Count("rows_compared", 1)
		if e.ok && !reflect.DeepEqual(e.m, g.row) {
			if e.dups {
				vsig = "raw-json-duplicate-keys"
			} else {
				vsig = ""
			}
			wb, _ := json.Marshal(e.m)
			violation = fmt.Sprintf("%s: returned row differs from the JSON round trip of the ingested row %s", phase, g.vid)
			vwit = map[string]any{"expected": core.Trunc(string(wb), 1500), "returned": core.Trunc(canonOf(g.row), 1500), "stored_json": core.Trunc(string(c.w.Rows[g.vid].JSON), 1500)}
			return false
		}
		return true
	}
	report := func() {
		rc.Violate(i, "row-not-faithful-or-shared", vsig, violation, map[string]any{"scenario": c.d, "detail": vwit})
	}
	if violation != "" {
		report()
		return
	}
	knownSeen := false
	for _, g := range all {
		if !check(g, "at receipt") {
			if vsig != "" {
				if !knownSeen {
					report() // known-finding signature: report once per case, keep going
				}
				violation, knownSeen = "", true
				continue
			}
			report()
			return
		}
	}
	// mutate half, the rest must not notice
	for k, g := range all {
		if k%2 == 0 {
			deepMutate(g.row)
			rc.Res.Count("rows_mutated", 1)
		}
	}
	for k, g := range all {
		if k%2 == 1 {
			if fp := canonOf(g.row); fp != g.fp {
				violation, vsig = fmt.Sprintf("row %s changed after another returned row was mutated: returned rows share mutable state", g.vid), ""
				vwit = map[string]any{"before": core.Trunc(g.fp, 1000), "after": core.Trunc(fp, 1000)}
				report()
				return
			}
		}
	}
	// later queries are unaffected by the mutation of earlier results
	for _, e := range c.w.Eng[:1] {
		ctx, cancel := context.WithTimeout(context.Background(), 120*time.Second)
		res := world.RunQuery(ctx, e, &bs.Query{})
		cancel()
		if res.QErr != nil || res.Err != nil {
			violation, vwit = fmt.Sprintf("re-query failed: %v %v", res.QErr, res.Err), nil
			report()
			return
		}
		for _, row := range res.Rows {
			g := &got{row: row, vid: world.VidOfRow(row)}
			if !check(g, "re-query after mutating earlier results") {
				if vsig != "" {
					if !knownSeen {
						report()
					}
					violation = ""
					continue
				}
				report()
				return
			}
		}
	}
	if i < 3 {
		rc.Res.Sample(map[string]any{"scenario": c.d, "concurrent_queries": nq, "rows_retained": len(all)})
	}
}
