package mon

// runScriptCases lets C23 reuse the C20/C21 script runner (set in scripts.go).
var runScriptCases func(rc *RunCtx, i int, forProp string)
