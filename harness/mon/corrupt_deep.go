package mon

import (
	"bytes"
	"context"
	"encoding/binary"
	"encoding/json"
	"fmt"
	"os"
	"path/filepath"
	"sort"

	bs "github.com/danthegoodman1/bloomsearch"

	"verifharness/core"
	"verifharness/extfmt"
	"verifharness/gen"
	"verifharness/world"
)

// c19Parts is the base file taken apart with the independent parser, so that it
// can be put together again with one part malformed and every checksum
// (row-data hash, section CRC, metadata CRC) and every offset/size consistent.
type c19Parts struct {
	// secOrder, when set, is the physical order in which the blocks' filter sections are laid
	// out inside the region (each block still points at its own section).
	secOrder []int
	meta     extfmt.Meta
	disk     [][]byte // per block: row data as stored (compressed)
	plain    [][]byte // per block: decoded row stream
	sections [][]byte // per block: filter section (may be empty)
	fileSec  []byte
}

func takeApart(b *c19Base) (*c19Parts, error) {
	p := &c19Parts{}
	jb, _ := json.Marshal(b.ft.Meta)
	if err := json.Unmarshal(jb, &p.meta); err != nil {
		return nil, err
	}
	for _, blk := range p.meta.DataBlocks {
		if blk.RowDataOffset < 0 || blk.RowDataOffset+blk.RowDataSize > len(b.raw) {
			return nil, fmt.Errorf("block extent outside file")
		}
		d := append([]byte(nil), b.raw[blk.RowDataOffset:blk.RowDataOffset+blk.RowDataSize]...)
		pl, err := extfmt.Decompress(blk.Compression, d)
		if err != nil {
			return nil, err
		}
		p.disk = append(p.disk, d)
		p.plain = append(p.plain, pl)
		var sec []byte
		if blk.BloomFilterSize > 0 {
			sec = append([]byte(nil), b.raw[blk.BloomFilterOffset:blk.BloomFilterOffset+blk.BloomFilterSize]...)
		}
		p.sections = append(p.sections, sec)
	}
	p.fileSec = append([]byte(nil), b.ft.FilterSection...)
	return p, nil
}

// assemble lays the parts out as FILE_FORMAT.md documents and writes a footer
// whose CRC matches. Offsets and sizes follow the parts; hash and
// UncompressedSize of a block are recomputed unless keepMeta says the
// mutation set them deliberately.
// lastAssembledPlain is the number of row-stream bytes the most recently assembled file really
// decodes to (a re-assembled file may legitimately decode to more than the base file did, e.g.
// with a doubled row stream; the allocation bound of that input follows what is really there).
var lastAssembledPlain int

func (p *c19Parts) assemble(keepUncompressed map[int]bool) []byte {
	var out bytes.Buffer
	lastAssembledPlain = 0
	for _, pl := range p.plain {
		lastAssembledPlain += len(pl)
	}
	meta := p.meta
	meta.DataBlocks = append([]extfmt.Block(nil), p.meta.DataBlocks...)
	for i := range meta.DataBlocks {
		blk := &meta.DataBlocks[i]
		blk.RowDataOffset, blk.RowDataSize = out.Len(), len(p.disk[i])
		blk.RowDataHash, blk.HasRowDataHash = extfmt.CRC32C(p.disk[i]), true
		if !keepUncompressed[i] {
			blk.UncompressedSize = len(p.plain[i])
		}
		out.Write(p.disk[i])
	}
	meta.BlockFilterRegionOffset = out.Len()
	order := p.secOrder
	if order == nil {
		for i := range meta.DataBlocks {
			order = append(order, i)
		}
	}
	for _, i := range order {
		blk := &meta.DataBlocks[i]
		blk.BloomFilterOffset, blk.BloomFilterSize = 0, 0
		if len(p.sections[i]) > 0 {
			blk.BloomFilterOffset, blk.BloomFilterSize = out.Len(), len(p.sections[i])
			out.Write(p.sections[i])
		}
	}
	meta.BlockFilterRegionSize = out.Len() - meta.BlockFilterRegionOffset
	meta.FileFilterSectionSize = len(p.fileSec)
	out.Write(p.fileSec)
	nj, _ := json.Marshal(meta)
	out.Write(nj)
	var u [4]byte
	binary.LittleEndian.PutUint32(u[:], extfmt.CRC32C(nj))
	out.Write(u[:])
	binary.LittleEndian.PutUint32(u[:], uint32(len(nj)))
	out.Write(u[:])
	binary.LittleEndian.PutUint32(u[:], 3)
	out.Write(u[:])
	out.WriteString(extfmt.Magic)
	return out.Bytes()
}

func sealSection(payload []byte) []byte {
	var u [4]byte
	binary.LittleEndian.PutUint32(u[:], extfmt.CRC32C(payload))
	return append(append([]byte(nil), payload...), u[:]...)
}

// malformSection returns a filter section with a valid CRC whose inside is
// malformed.
func malformSection(r *core.Rand, sec []byte) ([]byte, string) {
	if len(sec) < 5 {
		// no section to start from: a lone flags byte claiming filters
		return sealSection([]byte{byte(r.Range(1, 7))}), "claims-filters-but-empty"
	}
	payload := append([]byte(nil), sec[:len(sec)-4]...)
	switch r.Intn(9) {
	case 8:
		// a filter whose header is self-consistent (m = bitset length = X, k <= m) but whose word
		// count is whatever it is: header-only, one word, the real words; X at the uint64 edges
		x := uint64(core.Pick(r, []int64{-1, -63, -64, -65, 1 << 62, 1 << 40, 64, 65, 1, 0}))
		enc := make([]byte, 24+8*core.Pick(r, []int{0, 0, 1, 2}))
		binary.BigEndian.PutUint64(enc[0:], x)
		binary.BigEndian.PutUint64(enc[8:], uint64(core.Pick(r, []int64{1, 3, 0})))
		binary.BigEndian.PutUint64(enc[16:], x)
		var lp [4]byte
		binary.LittleEndian.PutUint32(lp[:], uint32(len(enc)))
		out := append([]byte{1}, lp[:]...)
		return sealSection(append(out, enc...)), fmt.Sprintf("self-consistent-bloom-header(m=%d,words=%d)", x, (len(enc)-24)/8)
	case 0:
		payload[0] |= byte(8 << uint(r.Intn(5)))
		return sealSection(payload), "unknown-flag-bit"
	case 1:
		payload[0] = 7&^payload[0] | payload[0] | byte(1<<uint(r.Intn(3)))
		if payload[0] == sec[0] {
			payload = payload[:len(payload)-r.Range(1, min(len(payload)-1, 40))]
			return sealSection(payload), "payload-cut-short"
		}
		return sealSection(payload), "flags-claim-absent-filter"
	case 2:
		if len(payload) >= 5 {
			binary.LittleEndian.PutUint32(payload[1:5], uint32(core.Pick(r, []int64{int64(len(payload)), int64(len(payload)) + 1, 1 << 31, 1<<32 - 1, 0, 1, 7})))
		}
		return sealSection(payload), "first-filter-length-arbitrary"
	case 3:
		extra := make([]byte, r.Range(1, 9))
		for i := range extra {
			extra[i] = byte(r.Intn(256))
		}
		return sealSection(append(payload, extra...)), "trailing-bytes"
	case 4:
		// bloom encoding: m uint64 BE, k uint64 BE, then the bitset (length uint64 BE, words)
		if len(payload) >= 5+24 {
			field := core.Pick(r, []int{0, 8, 16})
			val := uint64(core.Pick(r, []int64{0, 1, 1 << 20, 1 << 31, 1 << 34, 1 << 40, 1 << 62, -1}))
			binary.BigEndian.PutUint64(payload[5+field:], val)
			return sealSection(payload), fmt.Sprintf("bloom-header-field@%d=%d", field, val)
		}
		fallthrough
	case 5:
		for i := 5; i < len(payload); i++ {
			payload[i] = byte(r.Intn(256))
		}
		return sealSection(payload), "filter-payload-garbage"
	case 6:
		return sealSection(payload[:1]), "flags-only"
	default:
		cut := r.Range(1, len(payload)-1)
		return sealSection(payload[:cut]), "payload-cut-short"
	}
}

// malformRows returns a decoded row stream with malformed framing or content.
func malformRows(r *core.Rand, plain []byte) ([]byte, string) {
	rows, err := extfmt.SplitRows(plain)
	if err != nil || len(rows) == 0 {
		return append(plain, 1, 2, 3), "stray-tail"
	}
	k := r.Intn(len(rows))
	switch r.Intn(7) {
	case 0:
		out := append([]byte(nil), plain...)
		pos := 0
		for j := 0; j < k; j++ {
			pos += 4 + len(rows[j])
		}
		if r.Intn(5) == 0 {
			// one byte too long: the frame swallows the first byte of the next prefix (the framed
			// bytes are then not a written row; only the no-panic/allocation oracles apply)
			binary.LittleEndian.PutUint32(out[pos:], uint32(len(rows[k])+1))
			return out, "row-length-long-by-one"
		}
		binary.LittleEndian.PutUint32(out[pos:], uint32(core.Pick(r, []int64{int64(len(plain)), int64(len(plain)) + 1, 1 << 31, 1<<32 - 1})))
		return out, "row-length-overruns"
	case 1:
		return plain[:len(plain)-r.Range(1, min(len(plain)-1, len(rows[len(rows)-1])))], "last-row-cut"
	case 2:
		tail := make([]byte, r.Range(1, 3))
		return append(append([]byte(nil), plain...), tail...), "truncated-length-prefix-at-end"
	case 3:
		rows[k] = []byte(core.Pick(r, []string{`[1,2]`, `"text"`, `12`, `null`, `true`, ``, ` `, "\xff\xfe\x00", `[{"_vid":"x"}]`}))
		return extfmt.JoinRows(rows), "row-not-an-object"
	case 4:
		rows[k] = nil
		return extfmt.JoinRows(rows), "zero-length-row"
	case 5:
		out := append([]byte(nil), plain...)
		pos := 0
		for j := 0; j < k; j++ {
			pos += 4 + len(rows[j])
		}
		if len(rows[k]) > 0 {
			binary.LittleEndian.PutUint32(out[pos:], uint32(len(rows[k])-1))
		}
		return out, "row-length-short-by-one"
	default:
		return append(append([]byte(nil), plain...), plain...), "row-stream-doubled"
	}
}

// deepMutation builds a file that is consistent at every checksum and extent
// but malformed inside a section, a row stream, or a count.
// rowsIntact reports whether every row the file still frames is byte-identical to a written row
// (then a returned row must equal what the uncorrupted query returns for it).
func deepMutation(r *core.Rand, b *c19Base) (mut []byte, what string, rowsIntact bool, ok bool) {
	p, err := takeApart(b)
	if err != nil {
		return nil, "", false, false
	}
	bi := r.Intn(len(p.meta.DataBlocks))
	codec := p.meta.DataBlocks[bi].Compression
	switch r.Intn(7) {
	case 6:
		// a well-formed file whose sections are laid out in another order than the blocks
		p.secOrder = r.Perm(len(p.meta.DataBlocks))
		if r.Bool() {
			for k := range p.secOrder {
				p.secOrder[k] = len(p.secOrder) - 1 - k
			}
		}
		return p.assemble(nil), fmt.Sprintf("deep:sections-laid-out-in-order-%v", p.secOrder), true, true
	case 0, 1:
		pl, what := malformRows(r, p.plain[bi])
		d, err := extfmt.Compress(codec, pl)
		if err != nil {
			return nil, "", false, false
		}
		p.plain[bi], p.disk[bi] = pl, d
		intact := what != "last-row-cut" && what != "row-length-short-by-one" && what != "row-length-long-by-one"
		return p.assemble(nil), fmt.Sprintf("deep:block%d.rows:%s", bi, what), intact, true
	case 2:
		sec, what := malformSection(r, p.sections[bi])
		p.sections[bi] = sec
		return p.assemble(nil), fmt.Sprintf("deep:block%d.section:%s", bi, what), true, true
	case 3:
		sec, what := malformSection(r, p.fileSec)
		p.fileSec = sec
		return p.assemble(nil), "deep:filesection:" + what, true, true
	case 4:
		// decoded length disagrees with UncompressedSize (compressed codecs) / Rows disagrees with the stream
		if r.Bool() {
			p.meta.DataBlocks[bi].UncompressedSize = len(p.plain[bi]) + core.Pick(r, []int{-1, 1, -len(p.plain[bi]), 4, 1 << 20})
			if p.meta.DataBlocks[bi].UncompressedSize < 0 {
				p.meta.DataBlocks[bi].UncompressedSize = 0
			}
			return p.assemble(map[int]bool{bi: true}), fmt.Sprintf("deep:block%d.uncompressedSize-off(%d for %d)", bi, p.meta.DataBlocks[bi].UncompressedSize, len(p.plain[bi])), true, true
		}
		p.meta.DataBlocks[bi].Rows += core.Pick(r, []int{-1, 1, 1000, -p.meta.DataBlocks[bi].Rows})
		return p.assemble(nil), fmt.Sprintf("deep:block%d.rows-count-off", bi), true, true
	default:
		// the stored bytes are not a stream of the declared codec at all (hash consistent)
		d := make([]byte, r.Range(1, 200))
		for i := range d {
			d[i] = byte(r.Intn(256))
		}
		p.disk[bi] = d
		return p.assemble(map[int]bool{bi: true}), fmt.Sprintf("deep:block%d.rowdata-not-%s", bi, codec), true, true
	}
}

// c19Hashless: the MetaStore holds the file's metadata *without* row-data hashes (legal: the
// hash is optional in the format and files written through WriteFileFooter need not carry it),
// the bytes live in a FileSystemDataStore (handles are *os.File, which also implement
// io.ReaderAt), and the file is cut at every structural boundary. Nothing but the length of the
// file can tell the reader that a block's extent is not there any more: a helper asked for an
// extent that runs past the end must fail, and a query must either answer exactly or report an
// error - never hand out whatever the (pooled) buffer held before.
func c19Hashless(rc *RunCtx, i int, r *core.Rand, base *c19Base, spec gen.EngineSpec, queries []*bs.Query, rowWritten func(map[string]any) bool, caseID string) bool {
	mdH, _, err := bs.ReadFileMetadata(bytes.NewReader(base.raw))
	if err != nil {
		return true
	}
	for bi := range mdH.DataBlocks {
		mdH.DataBlocks[bi].HasRowDataHash, mdH.DataBlocks[bi].RowDataHash = false, 0
	}
	dir := scratchDir("c19", fmt.Sprintf("%s-hl-%d", caseID, os.Getpid()))
	defer os.RemoveAll(dir)
	path := filepath.Join(dir, "hashless.dat")
	fsd := bs.NewFileSystemDataStore(dir)
	ms := bs.NewMemoryMetaStore()
	if err := ms.Update(context.Background(), []bs.WriteOperation{{FileMetadata: mdH, FilePointerBytes: []byte(path)}}, nil); err != nil {
		return true
	}
	eng, err := bs.NewBloomSearchEngine(spec.Config(), ms, fsd)
	if err != nil {
		return true
	}
	run := func(q *bs.Query) *world.QueryResult {
		ctx, cancel := context.WithTimeout(context.Background(), core.Patience)
		defer cancel()
		return world.RunQuery(ctx, eng, q)
	}
	os.WriteFile(path, base.raw, 0o600)
	baseline := make([]map[string]int, len(queries))
	for k, q := range queries {
		res := run(q)
		if res.QErr != nil || res.Err != nil {
			rc.Violate(i, "scenario-failed", "", fmt.Sprintf("hashless baseline query: %v %v", res.QErr, res.Err), nil)
			return false
		}
		baseline[k] = res.VIDs
	}
	cutSet := map[int]bool{}
	for _, blk := range mdH.DataBlocks {
		for _, c := range []int{blk.RowDataOffset, blk.RowDataOffset + 1, blk.RowDataOffset + blk.RowDataSize/2, blk.RowDataOffset + blk.RowDataSize - 1, blk.RowDataOffset + blk.RowDataSize, blk.BloomFilterOffset + blk.BloomFilterSize/2} {
			cutSet[c] = true
		}
	}
	for k := 0; k < 4; k++ {
		cutSet[r.Intn(len(base.raw))] = true
	}
	var cuts []int
	for c := range cutSet {
		if c >= 0 && c < len(base.raw) {
			cuts = append(cuts, c)
		}
	}
	sort.Ints(cuts)
	if len(cuts) > 40 {
		perm := r.Perm(len(cuts))
		var keep []int
		for _, k := range perm[:40] {
			keep = append(keep, cuts[k])
		}
		cuts = keep
	}
	for _, cut := range cuts {
		mut := base.raw[:cut]
		os.WriteFile(path, mut, 0o600)
		rc.Res.Count("hashless_truncations", 1)
		wit := func(extra any) map[string]any {
			saved := filepath.Join(core.VerifDir, "replay", "C19", fmt.Sprintf("input-%s-hashless-%d.bin", caseID, cut))
			os.MkdirAll(filepath.Dir(saved), 0o755)
			os.WriteFile(saved, mut, 0o644)
			return map[string]any{"case": caseID, "mutation": fmt.Sprintf("hashless-truncate: metadata without row-data hashes held by the MetaStore, file cut at %d of %d", cut, len(base.raw)), "input_file": saved, "compression": spec.Compression, "detail": extra}
		}
		for bi := range mdH.DataBlocks {
			blk := mdH.DataBlocks[bi]
			end := blk.RowDataOffset + blk.RowDataSize
			for _, kind := range []string{"os.File", "bytes.Reader"} {
				var rd []byte
				var rerr error
				var pan any
				func() {
					defer func() { pan = recover() }()
					if kind == "os.File" {
						f, oerr := os.Open(path)
						if oerr != nil {
							rerr = oerr
							return
						}
						defer f.Close()
						rd, rerr = bs.ReadDataBlockRowData(f, &blk)
					} else {
						rd, rerr = bs.ReadDataBlockRowData(bytes.NewReader(mut), &blk)
					}
				}()
				rc.Res.Count("hashless_helper_calls", 1)
				if pan != nil {
					rc.Violate(i, "panic", "", fmt.Sprintf("ReadDataBlockRowData (%s) panicked on a truncated file: %v", kind, pan), wit(nil))
					return false
				}
				if end > cut && blk.RowDataSize > 0 {
					if rerr == nil {
						rc.Violate(i, "read-beyond-end-accepted", "", fmt.Sprintf("ReadDataBlockRowData (%s handle) returned %d bytes and no error for block %d whose row data [%d,%d) runs past the end of the %d-byte file", kind, len(rd), bi, blk.RowDataOffset, end, cut), wit(nil))
						return false
					}
					continue
				}
				if rerr != nil {
					continue
				}
				sc := bs.NewBlockRowScanner(rd)
				for {
					row, ok, serr := sc.Next()
					if serr != nil || !ok {
						break
					}
					if want, known := base.rows[world.VidOfJSON(row)]; !known || want != string(row) {
						rc.Violate(i, "wrong-row-from-helper", "", "a block that lies wholly inside the truncated file yielded a row that was not written: "+core.Trunc(string(row), 200), wit(nil))
						return false
					}
				}
			}
		}
		for k, q := range queries {
			res := run(q)
			rc.Res.Count("queries_hashless", 1)
			if res.QErr != nil {
				continue
			}
			for _, row := range res.Rows {
				if !rowWritten(row) {
					rc.Violate(i, "wrong-row-from-query", "", "a query over a truncated file (hash-less metadata held by the MetaStore) returned a row that was never written to it: "+core.Trunc(fmt.Sprintf("%v", row), 300), wit(queryJSON(q)))
					return false
				}
			}
			if res.Err == nil && !sameCounts(res.VIDs, baseline[k]) {
				rc.Violate(i, "silent-wrong-answer", "", fmt.Sprintf("with hash-less metadata held by the MetaStore, a query over the file cut at %d returned %d rows without an error; the uncorrupted answer has %d", cut, len(res.Rows), len(baseline[k])), wit(queryJSON(q)))
				return false
			}
		}
	}
	return true
}
