package mon

import (
	"bytes"
	"context"
	"encoding/binary"
	"encoding/json"
	"fmt"
	"math"
	"os"
	"path/filepath"
	"reflect"
	"runtime"
	"strings"
	"time"

	bs "github.com/danthegoodman1/bloomsearch"

	"verifharness/core"
	"verifharness/extfmt"
	"verifharness/gen"
	"verifharness/stores"
	"verifharness/world"
)

func init() {
	Register(&Check{
		Spec: core.Spec{ID: "C19", Level: "exploration",
			Rule:        "case = an engine-written multi-block file (all three codecs across cases; every eighth case zstd blocks of repetitive rows that decode to several hundred KiB from about a KiB, far beyond 32x their stored size) x a batch of mutated inputs, each written to disk before it is used. Byte mutations: single/multi bit flips, byte bursts, truncation at every structural boundary +-1, extension, splices from another file, zeroed ranges, the footer's length and version fields set to boundary values (next to the file size, 2^31, 2^32), each targeted at row data, filter region, file filter section, metadata JSON, CRC, length, version, magic. Framing mutations: the footer JSON re-encoded with a consistent CRC and one or two of {region offset/size, block row-data offset/size, block filter offset/size, file filter section size, block UncompressedSize, block Rows} set to boundary values (-1, 0, 1, size+-1, 2^31+-1, 2^40, 2^62, int64 extremes) or PRNG values. Deep mutations (every 4th input): the file is taken apart with the independent parser and re-assembled with every checksum (row-data hash, section CRC, metadata CRC) and extent consistent but one part malformed inside: a row stream with an overrunning / short / truncated length prefix, a row that is not a JSON object, a zero-length row, a doubled stream; a block or file-level filter section with unknown flag bits, flags claiming absent filters, an arbitrary filter length, trailing bytes, a bloom header field (m, k, bitset length) at a boundary value, a garbage or cut payload; UncompressedSize or Rows disagreeing with the stream; stored bytes that are not a stream of the declared codec. Hash-less leg (per case, before the inputs): a MemoryMetaStore holds the file's metadata with the optional row-data hashes removed, the bytes live in a FileSystemDataStore (os.File handles), and the file is cut at every block boundary +-1, mid-block and at PRNG points: ReadDataBlockRowData over an os.File and a bytes.Reader must fail for every extent that runs past the end, blocks wholly inside must yield written rows, and queries must answer exactly or report an error. Per input: ReadFileMetadata, then ReadDataBlockRowData / ReadDataBlockBloomFilters / BlockRowScanner with the metadata it returned (or the original metadata), a query through MemoryMetaStore holding the original metadata over the mutated bytes, and a query through FileSystemDataStore scanning the mutated file. Oracle: no panic or fatal error; TotalAlloc delta per call <= 16 x (file size + the bytes the blocks really decode to) + 8 MiB (+ 8 MiB per block for zstd, whose decoders cost megabytes each on intact files); with original metadata the result is the exact uncorrupted answer or Err != nil; every returned row is a row that was written, byte for byte (for deep mutations: whenever the mutation left the framed rows byte-identical to written rows). non-trivial = input that at least one call rejected with an error; distinct = distinct mutated contents",
			Assumptions: []string{"helpers are called with metadata that ReadFileMetadata returned for the mutated file, or with the original metadata over mutated bytes (a MetaStore that hands out unvalidated row-data extents is outside the property)"},
			Floors:      map[string]int64{"inputs": 3000, "inputs_rejected": 1500, "framing_inputs": 800, "deep_inputs": 800, "queries_memmeta": 3000, "queries_fsscan": 500, "hashless_truncations": 300, "cases_with_highly_compressible_blocks": 3, "queries_hashless": 900}},
		Cases:        func(t string) int { return nQueries(t, 32, 1200) },
		ChildTimeout: func(t string) time.Duration { return 90 * time.Minute },
		Run:          runC19,
	})
}

type c19Base struct {
	raw   []byte
	md    *bs.FileMetadata
	ft    *extfmt.Footer
	rows  map[string]string // vid -> canonical JSON
	bound uint64
}

func allocOf(fn func()) uint64 {
	var a, b runtime.MemStats
	runtime.ReadMemStats(&a)
	fn()
	runtime.ReadMemStats(&b)
	return b.TotalAlloc - a.TotalAlloc
}

var boundaryInts = []int64{-1, 0, 1, 2, 1<<31 - 1, 1 << 31, 1<<31 + 1, 1 << 40, 1 << 62, math.MaxInt64, math.MinInt64, math.MaxInt64 - 1, -1 << 31}

func runC19(rc *RunCtx, i int) {
	r := rc.CaseRand(i)
	caseID := fmt.Sprintf("c19_%d_%d", rc.Seed, i)
	v := gen.NewVocab(r.Split("vocab"))
	tok := gen.Tokenizers[0]
	w := world.New(caseID, world.StoreMem, v, tok)
	defer w.Close()
	spec := gen.PickEngineSpec(r.Split("spec"), v, tok)
	spec.Part = gen.PartFunc{Name: "bucket:3", Fn: gen.PickPartFuncBucket(3)}
	spec.Partition = "bucket:3"
	spec.Compression = []string{"none", "snappy", "zstd"}[i%3]
	spec.ZstdLevel = 1
	spec.BufRows, spec.BufBytes, spec.RGRows, spec.RGBytes = 1000, 1<<20, 1000, 10<<20
	bigSections := i%4 == 1 // filter sections of several KiB: larger than the smallest pooled buffers
	if bigSections {
		spec.FPR = 1e-9
	}
	// every eighth case: zstd blocks of very repetitive rows, which decode to far more than 32x
	// their stored size: the only blocks for which a reader may have to go beyond any bound it
	// derives from the bytes present, i.e. where a lying UncompressedSize has the most room
	compressibleBig := i%8 == 6
	if compressibleBig {
		spec.Compression, spec.ZstdLevel = "zstd", 1
		rc.Res.Count("cases_with_highly_compressible_blocks", 1)
	}
	if _, err := w.AddEngine(spec); err != nil {
		rc.Violate(i, "scenario-failed", "", err.Error(), nil)
		return
	}
	rr := r.Split("rows")
	padWord := core.Pick(rr, v.Words)
	mk := func(n int) []*world.RowRec {
		var recs []*world.RowRec
		for k := 0; k < n; k++ {
			if compressibleBig {
				recs = append(recs, w.NewRowWith(rr, 0, func(row map[string]any) { row["pad"] = strings.Repeat(padWord+" ", 2500) }))
				continue
			}
			recs = append(recs, w.NewRow(rr, 0))
		}
		return recs
	}
	firstRows := r.Range(6, 25)
	if bigSections {
		firstRows = r.Range(60, 120)
	}
	if compressibleBig {
		firstRows = r.Range(40, 70)
	}
	if err := w.IngestSync(0, [][]*world.RowRec{mk(firstRows)}); err != nil {
		rc.Violate(i, "scenario-failed", "", err.Error(), nil)
		return
	}
	if err := w.IngestSync(0, [][]*world.RowRec{mk(r.Range(3, 10))}); err != nil {
		rc.Violate(i, "scenario-failed", "", err.Error(), nil)
		return
	}
	ptrs := w.Mem.Pointers()
	if len(ptrs) < 2 {
		rc.Violate(i, "scenario-failed", "", "expected two files", nil)
		return
	}
	rawA, _ := w.Mem.Get(ptrs[0])
	donor, _ := w.Mem.Get(ptrs[1])
	mdA, _, err := bs.ReadFileMetadata(bytes.NewReader(rawA))
	if err != nil {
		rc.Violate(i, "scenario-failed", "", "base file unreadable: "+err.Error(), nil)
		return
	}
	ftA, err := extfmt.ParseFooter(rawA)
	if err != nil {
		rc.Violate(i, "scenario-failed", "", "independent parser rejects base file: "+err.Error(), nil)
		return
	}
	base := &c19Base{raw: rawA, md: mdA, ft: ftA, rows: map[string]string{}}
	inv, err := w.Inventory()
	if err != nil {
		rc.Violate(i, "scenario-failed", "", err.Error(), nil)
		return
	}
	unc := 0
	for _, f := range inv {
		for _, b := range f.Blocks {
			if f.Ptr == ptrs[0] {
				unc += b.Meta.UncompressedSize
			}
			for k, vid := range b.VIDs {
				base.rows[vid] = string(b.RowJSON[k])
			}
		}
	}
	base.bound = uint64(16*(len(rawA)+unc) + 8<<20)
	if spec.Compression == "zstd" {
		// a zstd decoder costs megabytes per decoded block whatever the block holds (measured
		// on intact files: 5.6 MB for one 140 KB block, 6-12 MB for a clean query over three),
		// so the allowance grows with the number of blocks a call may decode. Hostile sizes are
		// orders of magnitude beyond it (2^31 and up).
		nb := len(mdA.DataBlocks)
		if mdD, _, derr := bs.ReadFileMetadata(bytes.NewReader(donor)); derr == nil {
			nb += len(mdD.DataBlocks)
		}
		base.bound += uint64(nb) * (8 << 20)
	}
	e := w.Eng[0]
	queries := []*bs.Query{{}, bs.NewQuery().Field("_vid").Build(), bs.NewQuery().Token(core.Pick(r, v.Words)).Build()}
	baseline := make([]map[string]int, len(queries))
	// what each stored row looks like when the uncorrupted data is queried: the yardstick for
	// "a row that was written" (same materialisation path, so raw-JSON oddities cancel out)
	baselineRows := map[string]map[string]any{}
	rowWritten := func(row map[string]any) bool {
		want, ok := baselineRows[world.VidOfRow(row)]
		return ok && reflect.DeepEqual(want, row)
	}
	for k, q := range queries {
		ctx, cancel := context.WithTimeout(context.Background(), core.Patience)
		res := world.RunQuery(ctx, e, q)
		cancel()
		if res.QErr != nil || res.Err != nil {
			rc.Violate(i, "scenario-failed", "", fmt.Sprintf("baseline query: %v %v", res.QErr, res.Err), nil)
			return
		}
		baseline[k] = res.VIDs
		if k == 0 {
			for _, row := range res.Rows {
				baselineRows[world.VidOfRow(row)] = row
			}
		}
	}
	if !c19Hashless(rc, i, r.Split("hashless"), base, spec, queries, rowWritten, caseID) {
		return
	}
	fsDir := scratchDir("c19", fmt.Sprintf("%s-%d", caseID, os.Getpid()))
	defer os.RemoveAll(fsDir)
	inputPath := filepath.Join(scratchDir("c19"), fmt.Sprintf("current-input-%d.bin", os.Getpid()))
	defer os.Remove(inputPath)
	fsStore := bs.NewFileSystemDataStore(fsDir)
	fsEngine, _ := bs.NewBloomSearchEngine(spec.Config(), fsStore, fsStore)
	// the second file stays intact in the fs directory so that scans always have a healthy neighbour
	os.WriteFile(filepath.Join(fsDir, "healthy.dat"), donor, 0o600)

	n := 200
	if rc.Tier == "thorough" {
		n = 350
	}
	mr := r.Split("mut")
	for k := 0; k < n; k++ {
		framing := k%4 == 3
		deep, rowsIntact := false, true
		var mut []byte
		var what string
		if k%4 == 1 {
			var ok bool
			if mut, what, rowsIntact, ok = deepMutation(mr, base); ok {
				deep = true
				rc.Res.Count("deep_inputs", 1)
			}
		}
		inputBound := base.bound
		if deep && lastAssembledPlain > unc {
			// the re-assembled file really decodes to more than the base file did
			inputBound += uint64(16 * (lastAssembledPlain - unc))
		}
		if deep {
		} else if framing {
			mut, what = framingMutation(mr, base)
			rc.Res.Count("framing_inputs", 1)
		} else {
			mut, what = byteMutation(mr, base, donor)
		}
		os.WriteFile(inputPath, mut, 0o600) // on disk before any call: a process death is attributable
		rc.Res.Eval(1)
		rc.Res.Count("inputs", 1)
		rejected := false
		wit := func(extra any) map[string]any {
			saved := filepath.Join(core.VerifDir, "replay", "C19", fmt.Sprintf("input-%s-%d.bin", caseID, k))
			os.MkdirAll(filepath.Dir(saved), 0o755)
			os.WriteFile(saved, mut, 0o644)
			return map[string]any{"case": caseID, "mutation": what, "input_file": saved, "original_size": len(base.raw), "mutated_size": len(mut), "compression": spec.Compression, "detail": extra}
		}
		guard := func(name string, fn func()) (ok bool) {
			ok = true
			var pan any
			alloc := allocOf(func() {
				defer func() {
					if p := recover(); p != nil {
						pan = p
					}
				}()
				fn()
			})
			if pan != nil {
				buf := make([]byte, 8192)
				buf = buf[:runtime.Stack(buf, false)]
				rc.Violate(i, "panic", "", fmt.Sprintf("%s panicked on a mutated file: %v", name, pan), wit(string(buf)))
				return false
			}
			rc.Res.Max("max.alloc_bytes_per_call", int64(alloc))
			if alloc > inputBound {
				rc.Violate(i, "allocation-beyond-file-size", "", fmt.Sprintf("%s allocated %d bytes for a %d-byte file (bound %d)", name, alloc, len(mut), inputBound), wit(nil))
				return false
			}
			return true
		}
		// 1. public parser
		var md2 *bs.FileMetadata
		var rerr error
		if !guard("ReadFileMetadata", func() { md2, _, rerr = bs.ReadFileMetadata(bytes.NewReader(mut)) }) {
			return
		}
		if rerr != nil {
			rejected = true
		}
		// 2. helpers with the metadata the parser returned, and with the original metadata
		for _, m := range []*bs.FileMetadata{md2, base.md} {
			if m == nil || (deep && m == base.md) {
				continue
			}
			for bi := range m.DataBlocks {
				blk := m.DataBlocks[bi]
				var rd []byte
				var e1, e2 error
				if !guard("ReadDataBlockRowData", func() { rd, e1 = bs.ReadDataBlockRowData(bytes.NewReader(mut), &blk) }) {
					return
				}
				if !guard("ReadDataBlockBloomFilters", func() { _, e2 = bs.ReadDataBlockBloomFilters(bytes.NewReader(mut), blk) }) {
					return
				}
				if e1 != nil || e2 != nil {
					rejected = true
				}
				if e1 == nil {
					bad := ""
					if !guard("BlockRowScanner", func() {
						sc := bs.NewBlockRowScanner(rd)
						for {
							row, ok, err := sc.Next()
							if err != nil {
								rejected = true
								return
							}
							if !ok {
								return
							}
							vid := world.VidOfJSON(row)
							if deep && rowsIntact && blk.HasRowDataHash {
								if want, ok := base.rows[vid]; ok && want != string(row) {
									bad = fmt.Sprintf("scanner yielded a row that differs from the written row %s: %s", vid, core.Trunc(string(row), 200))
								}
							}
							if m == base.md && blk.HasRowDataHash {
								if want, ok := base.rows[vid]; !ok || want != string(row) {
									bad = fmt.Sprintf("scanner yielded a row that was not written: %s", core.Trunc(string(row), 200))
								}
							}
						}
					}) {
						return
					}
					if bad != "" {
						rc.Violate(i, "wrong-row-from-helper", "", bad, wit(nil))
						return
					}
				}
			}
		}
		// 3a'. a file malformed by construction: a MemoryMetaStore holds the metadata the parser
		// returned for it (when it returned one)
		if deep && md2 != nil {
			ds := stores.NewMemDataStore("deep", true, false)
			ptr := ds.Put(mut)
			ms := bs.NewMemoryMetaStore()
			ms.Update(context.Background(), []bs.WriteOperation{{FileMetadata: md2, FilePointerBytes: ptr}}, nil)
			de, derr := bs.NewBloomSearchEngine(spec.Config(), ms, ds)
			if derr == nil {
				for _, q := range queries {
					var res *world.QueryResult
					if !guard("Query (malformed file, parsed metadata in MemoryMetaStore)", func() {
						ctx, cancel := context.WithTimeout(context.Background(), core.Patience)
						res = world.RunQuery(ctx, de, q)
						cancel()
					}) {
						return
					}
					rc.Res.Count("queries_deep_memmeta", 1)
					if res.Err != nil || res.QErr != nil {
						rejected = true
					}
					if rowsIntact {
						for _, row := range res.Rows {
							if _, known := baselineRows[world.VidOfRow(row)]; !known || !rowWritten(row) {
								rc.Violate(i, "wrong-row-from-query", "", "a query over a malformed (checksum-consistent) file returned a row that was never written: "+core.Trunc(fmt.Sprintf("%v", row), 300), wit(queryJSON(q)))
								return
							}
						}
					}
				}
			}
		}
		// 3a. MemoryMetaStore holds the original metadata over the mutated bytes
		w.Mem.Set(ptrs[0], mut)
		for qi, q := range queries {
			if deep {
				break
			}
			var res *world.QueryResult
			if !guard("Query (original metadata in MemoryMetaStore)", func() {
				ctx, cancel := context.WithTimeout(context.Background(), core.Patience)
				res = world.RunQuery(ctx, e, q)
				cancel()
			}) {
				w.Mem.Set(ptrs[0], base.raw)
				return
			}
			rc.Res.Count("queries_memmeta", 1)
			if res.QErr != nil {
				continue
			}
			if res.Err != nil {
				rejected = true
			}
			for _, row := range res.Rows {
				if !rowWritten(row) {
					rc.Violate(i, "wrong-row-from-query", "", "a query over the corrupted file returned a row that was never written: "+core.Trunc(fmt.Sprintf("%v", row), 300), wit(queryJSON(q)))
					w.Mem.Set(ptrs[0], base.raw)
					return
				}
			}
			if res.Err == nil && !sameCounts(res.VIDs, baseline[qi]) {
				rc.Violate(i, "silent-wrong-answer", "", fmt.Sprintf("with the file's metadata held by the MetaStore, a query over the corrupted bytes returned %d rows without an error; the uncorrupted answer has %d", len(res.Rows), len(baseline[qi])), wit(queryJSON(q)))
				w.Mem.Set(ptrs[0], base.raw)
				return
			}
		}
		w.Mem.Set(ptrs[0], base.raw)
		// 3b. the filesystem store scans the mutated file
		if k%3 == 0 || deep {
			os.WriteFile(filepath.Join(fsDir, "mutant.dat"), mut, 0o600)
			var res *world.QueryResult
			if !guard("Query (FileSystemDataStore scan)", func() {
				ctx, cancel := context.WithTimeout(context.Background(), core.Patience)
				res = world.RunQuery(ctx, fsEngine, queries[k/3%len(queries)])
				cancel()
			}) {
				return
			}
			rc.Res.Count("queries_fsscan", 1)
			for _, row := range res.Rows {
				if !rowWritten(row) && rowsIntact {
					rc.Violate(i, "wrong-row-from-query", "", "a query scanning the corrupted file returned a row that was never written: "+core.Trunc(fmt.Sprintf("%v", row), 300), wit("filesystem scan"))
					return
				}
			}
			os.Remove(filepath.Join(fsDir, "mutant.dat"))
		}
		if rejected {
			rc.Res.Count("inputs_rejected", 1)
			rc.Res.Nontrivial(extfmt.CRC32C(mut), len(mut))
		}
		rc.Res.Count("mutation."+strings.SplitN(what, ":", 2)[0], 1)
		if k < 2 && i < 2 {
			rc.Res.Sample(map[string]any{"case": caseID, "mutation": what, "original_size": len(base.raw), "mutated_size": len(mut), "rejected": rejected})
		}
	}
}

// structural boundaries of the base file
func (b *c19Base) boundaries() []int {
	var out []int
	for _, blk := range b.md.DataBlocks {
		out = append(out, blk.RowDataOffset, blk.RowDataOffset+blk.RowDataSize, blk.BloomFilterOffset, blk.BloomFilterOffset+blk.BloomFilterSize)
	}
	mo := int(b.ft.MetaOffset)
	out = append(out, b.md.BlockFilterRegionOffset, b.md.BlockFilterRegionOffset+b.md.BlockFilterRegionSize, mo-b.ft.Meta.FileFilterSectionSize, mo, len(b.raw)-20, len(b.raw)-16, len(b.raw)-12, len(b.raw)-8, len(b.raw))
	return out
}

func (b *c19Base) region(r *core.Rand) (string, int, int) {
	mo := int(b.ft.MetaOffset)
	n := len(b.raw)
	switch r.Intn(9) {
	case 0, 1:
		blk := b.md.DataBlocks[r.Intn(len(b.md.DataBlocks))]
		return "rowdata", blk.RowDataOffset, blk.RowDataOffset + blk.RowDataSize
	case 2:
		return "filterregion", b.md.BlockFilterRegionOffset, b.md.BlockFilterRegionOffset + b.md.BlockFilterRegionSize
	case 3:
		return "filefilters", mo - b.ft.Meta.FileFilterSectionSize, mo
	case 4:
		return "json", mo, n - 20
	case 5:
		return "crc", n - 20, n - 16
	case 6:
		return "length", n - 16, n - 12
	case 7:
		return "version", n - 12, n - 8
	default:
		return "magic", n - 8, n
	}
}

func byteMutation(r *core.Rand, b *c19Base, donor []byte) ([]byte, string) {
	mut := append([]byte(nil), b.raw...)
	name, lo, hi := b.region(r)
	if hi <= lo {
		lo, hi = 0, len(mut)
	}
	pos := func() int { return lo + r.Intn(hi-lo) }
	if n := len(mut); n >= 20 && r.Intn(12) == 0 {
		// the fixed-width fields of the footer tail (none of them is under a CRC) set to
		// boundary values: lengths next to the file size, next to 2^31 and next to 2^32 (where a
		// 32-bit sum with the 20-byte tail wraps), versions next to the known one
		field, off := "length", n-16
		vals := []uint32{0, 1, uint32(n - 21), uint32(n - 20), uint32(n - 19), uint32(n), 1<<31 - 1, 1 << 31, 1<<32 - 21, 1<<32 - 20, 1<<32 - 19, 1<<32 - 16, 1<<32 - 4, 1<<32 - 1}
		if r.Intn(4) == 0 {
			field, off = "version", n-12
			vals = []uint32{0, 1, 2, 4, 1 << 31, 1<<32 - 1}
		}
		v := core.Pick(r, vals)
		binary.LittleEndian.PutUint32(mut[off:], v)
		return mut, fmt.Sprintf("footerfield:%s=%d", field, v)
	}
	switch r.Intn(8) {
	case 0:
		p := pos()
		mut[p] ^= 1 << uint(r.Intn(8))
		return mut, fmt.Sprintf("bitflip:%s@%d", name, p)
	case 1:
		k := r.Range(2, 6)
		for j := 0; j < k; j++ {
			mut[pos()] ^= 1 << uint(r.Intn(8))
		}
		return mut, fmt.Sprintf("multibitflip:%s x%d", name, k)
	case 2:
		p := pos()
		l := r.Range(1, 32)
		for j := p; j < p+l && j < len(mut); j++ {
			mut[j] = byte(r.Intn(256))
		}
		return mut, fmt.Sprintf("burst:%s@%d+%d", name, p, l)
	case 3:
		bd := core.Pick(r, b.boundaries()) + r.Range(-1, 1)
		if bd < 0 {
			bd = 0
		}
		if bd > len(mut) {
			bd = len(mut)
		}
		return mut[:bd], fmt.Sprintf("truncate:@%d", bd)
	case 4:
		ext := make([]byte, r.Range(1, 64))
		for j := range ext {
			ext[j] = byte(r.Intn(256))
		}
		if r.Bool() {
			return append(mut, ext...), fmt.Sprintf("extend:+%d", len(ext))
		}
		return append(ext, mut...), fmt.Sprintf("prepend:+%d", len(ext))
	case 5:
		if len(donor) > 8 {
			p := pos()
			l := r.Range(1, 200)
			dp := r.Intn(len(donor))
			for j := 0; j < l && p+j < len(mut) && dp+j < len(donor); j++ {
				mut[p+j] = donor[dp+j]
			}
			return mut, fmt.Sprintf("splice:%s@%d+%d", name, p, l)
		}
		fallthrough
	case 6:
		p := pos()
		l := r.Range(1, 128)
		for j := p; j < p+l && j < len(mut); j++ {
			mut[j] = 0
		}
		return mut, fmt.Sprintf("zero:%s@%d+%d", name, p, l)
	default:
		// donor footer on this file's body, or this footer on a truncated body
		cut := r.Intn(int(b.ft.MetaOffset) + 1)
		return append(append([]byte(nil), mut[:cut]...), mut[b.ft.MetaOffset-int64(b.ft.Meta.FileFilterSectionSize):]...), fmt.Sprintf("bodycut:@%d", cut)
	}
}

// framingMutation re-encodes the footer with a consistent CRC and arbitrary framing values.
func framingMutation(r *core.Rand, b *c19Base) ([]byte, string) {
	var meta extfmt.Meta
	jb, _ := json.Marshal(b.ft.Meta)
	json.Unmarshal(jb, &meta)
	var desc []string
	pickVal := func(cur int) int {
		n := len(b.raw)
		cands := append([]int64{int64(cur) - 1, int64(cur) + 1, int64(n), int64(n) - 1, int64(n) + 1, int64(b.ft.MetaOffset)}, boundaryInts...)
		// in-bounds values that belong to something else: the region's start and end, other blocks'
		// row-data and filter-section offsets and ends (sections out of order, overlapping, shared)
		cands = append(cands, int64(meta.BlockFilterRegionOffset), int64(meta.BlockFilterRegionOffset+meta.BlockFilterRegionSize), int64(meta.BlockFilterRegionOffset)+1)
		for _, ob := range meta.DataBlocks {
			cands = append(cands, int64(ob.BloomFilterOffset), int64(ob.BloomFilterOffset+ob.BloomFilterSize), int64(ob.RowDataOffset), int64(ob.RowDataOffset+ob.RowDataSize), int64(ob.BloomFilterSize), int64(ob.RowDataSize))
		}
		if r.Chance(0.2) {
			return int(r.Int63() % (int64(n) * 2))
		}
		return int(core.Pick(r, cands))
	}
	for t := r.Range(1, 2); t > 0; t-- {
		bi := r.Intn(len(meta.DataBlocks))
		switch r.Intn(14) {
		case 13:
			// one block's filter extent nested inside (or overlapping) another block's section
			bj := r.Intn(len(meta.DataBlocks))
			outer := meta.DataBlocks[bi]
			if outer.BloomFilterSize > 2 {
				off := outer.BloomFilterOffset + core.Pick(r, []int{0, 0, 1, outer.BloomFilterSize / 2})
				meta.DataBlocks[bj].BloomFilterOffset = off
				meta.DataBlocks[bj].BloomFilterSize = core.Pick(r, []int{1, 5, 16, 64, outer.BloomFilterSize / 2, outer.BloomFilterSize - (off - outer.BloomFilterOffset)})
			}
			desc = append(desc, fmt.Sprintf("block%d.filterExtent-inside-block%d", bj, bi))
		case 10:
			// the same block listed twice
			meta.DataBlocks = append(meta.DataBlocks, meta.DataBlocks[bi])
			desc = append(desc, fmt.Sprintf("block%d-listed-twice", bi))
		case 11:
			// no blocks at all / a null block list
			if r.Bool() {
				meta.DataBlocks = nil
			} else {
				meta.DataBlocks = meta.DataBlocks[:0]
			}
			desc = append(desc, "no-blocks")
			t = 0
			nj, _ := json.Marshal(meta)
			return reframe(b, nj), "framing:" + strings.Join(desc, ",")
		case 12:
			// two blocks claim the same row data (with the other's hash and counts or their own)
			bj := r.Intn(len(meta.DataBlocks))
			meta.DataBlocks[bj].RowDataOffset, meta.DataBlocks[bj].RowDataSize = meta.DataBlocks[bi].RowDataOffset, meta.DataBlocks[bi].RowDataSize
			if r.Bool() {
				meta.DataBlocks[bj].RowDataHash, meta.DataBlocks[bj].UncompressedSize, meta.DataBlocks[bj].Rows = meta.DataBlocks[bi].RowDataHash, meta.DataBlocks[bi].UncompressedSize, meta.DataBlocks[bi].Rows
			}
			desc = append(desc, fmt.Sprintf("block%d-shares-rowdata-of-block%d", bj, bi))
		case 9:
			// two blocks trade filter sections: every extent stays in bounds and CRC-valid
			bj := r.Intn(len(meta.DataBlocks))
			a, c := &meta.DataBlocks[bi], &meta.DataBlocks[bj]
			a.BloomFilterOffset, c.BloomFilterOffset = c.BloomFilterOffset, a.BloomFilterOffset
			a.BloomFilterSize, c.BloomFilterSize = c.BloomFilterSize, a.BloomFilterSize
			desc = append(desc, fmt.Sprintf("block%d<->block%d.filterSection", bi, bj))
		case 7:
			meta.DataBlocks[bi].UncompressedSize = pickVal(meta.DataBlocks[bi].UncompressedSize)
			desc = append(desc, fmt.Sprintf("block%d.uncompressedSize=%d", bi, meta.DataBlocks[bi].UncompressedSize))
		case 8:
			meta.DataBlocks[bi].Rows = pickVal(meta.DataBlocks[bi].Rows)
			desc = append(desc, fmt.Sprintf("block%d.rows=%d", bi, meta.DataBlocks[bi].Rows))
		case 0:
			meta.BlockFilterRegionOffset = pickVal(meta.BlockFilterRegionOffset)
			desc = append(desc, fmt.Sprintf("regionOffset=%d", meta.BlockFilterRegionOffset))
		case 1:
			meta.BlockFilterRegionSize = pickVal(meta.BlockFilterRegionSize)
			desc = append(desc, fmt.Sprintf("regionSize=%d", meta.BlockFilterRegionSize))
		case 2:
			meta.DataBlocks[bi].RowDataOffset = pickVal(meta.DataBlocks[bi].RowDataOffset)
			desc = append(desc, fmt.Sprintf("block%d.rowOffset=%d", bi, meta.DataBlocks[bi].RowDataOffset))
		case 3:
			meta.DataBlocks[bi].RowDataSize = pickVal(meta.DataBlocks[bi].RowDataSize)
			desc = append(desc, fmt.Sprintf("block%d.rowSize=%d", bi, meta.DataBlocks[bi].RowDataSize))
		case 4:
			meta.DataBlocks[bi].BloomFilterOffset = pickVal(meta.DataBlocks[bi].BloomFilterOffset)
			desc = append(desc, fmt.Sprintf("block%d.filterOffset=%d", bi, meta.DataBlocks[bi].BloomFilterOffset))
		case 5:
			meta.DataBlocks[bi].BloomFilterSize = pickVal(meta.DataBlocks[bi].BloomFilterSize)
			desc = append(desc, fmt.Sprintf("block%d.filterSize=%d", bi, meta.DataBlocks[bi].BloomFilterSize))
		default:
			meta.FileFilterSectionSize = pickVal(meta.FileFilterSectionSize)
			desc = append(desc, fmt.Sprintf("fileFilterSectionSize=%d", meta.FileFilterSectionSize))
		}
	}
	nj, _ := json.Marshal(meta)
	return reframe(b, nj), "framing:" + strings.Join(desc, ",")
}

// reframe puts a metadata JSON with a matching CRC behind the base file's body.
func reframe(b *c19Base, nj []byte) []byte {
	body := b.raw[:b.ft.MetaOffset]
	var out bytes.Buffer
	out.Write(body)
	out.Write(nj)
	var u [4]byte
	binary.LittleEndian.PutUint32(u[:], extfmt.CRC32C(nj))
	out.Write(u[:])
	binary.LittleEndian.PutUint32(u[:], uint32(len(nj)))
	out.Write(u[:])
	binary.LittleEndian.PutUint32(u[:], 3)
	out.Write(u[:])
	out.WriteString(extfmt.Magic)
	return out.Bytes()
}

var _ = stores.ErrInjected
