package mon

import (
	"context"
	"fmt"
	"os"
	"sort"
	"strconv"
	"strings"
	"sync"
	"sync/atomic"
	"time"

	"github.com/anishathalye/porcupine"
	bs "github.com/danthegoodman1/bloomsearch"

	"verifharness/core"
	"verifharness/extfmt"
	"verifharness/gen"
	"verifharness/stores"
	"verifharness/world"
)

func init() {
	Register(&Check{
		Spec: core.Spec{ID: "C14", Level: "exploration",
			Rule:        "two parts. (end to end) case = 2-4 writers ingesting and flushing continuously (each ack recorded with a logical tick), a merger looping with small limits, 4-12 query loops (match-all and Field queries; under a partition function one loop in four runs PartitionEquals/PartitionNotEquals prefilters over the partitions acknowledged so far, owed exactly the acknowledged rows whose own non-empty partition id satisfies the condition), over (a) MemDataStore that really deletes on tombstone + MemoryMetaStore and (b) FileSystemDataStore as both stores; PRNG delays at fs.scan.listed, mem.snapshot.taken, merge.beforeUpdate/afterUpdate, query.fileStage.next and at store calls; under -race. Per query: Err == nil => every matching row acked before the query's start tick appears exactly once; always: no row twice, no row never ingested. (mechanism) short concurrent histories (<= 4 clients, <= 40 ops) of MemoryMetaStore.Update and snapshot iterations with unique pointers, checked linearizable with porcupine against a set-of-pointers model. non-trivial = query whose lifetime overlapped a committed merge or a flush / porcupine history with overlapping ops; distinct = distinct (run, query index) / distinct histories",
			Assumptions: []string{"'acknowledged before the query started' = the harness received the nil answer before it took the query's start tick", "porcupine Unknown (timeout) is inconclusive, never a violation"},
			Floors:      map[string]int64{"queries": 300, "queries_overlapping_merge": 30, "porcupine_histories": 50, "queries_with_partition_prefilter": 10}},
		Cases:       func(t string) int { return nQueries(t, 24, 500) },
		Run:         runC14,
		RaceMatters: true,
	})
}

type c14Merge struct {
	call, ret int64
	vids      map[string]bool
	committed bool
}

func runC14(rc *RunCtx, i int) {
	if i%4 == 3 {
		runC14Porcupine(rc, i)
		return
	}
	r := rc.CaseRand(i)
	kind := world.StoreMem
	if i%2 == 1 {
		kind = world.StoreFS
	}
	if i%8 == 2 {
		kind = world.StoreMix // files really vanish from disk, metadata commits stay atomic
	}
	caseID := fmt.Sprintf("%s%d_%d", strings.ToLower(rc.ID), rc.Seed, i)
	v := gen.NewVocab(r.Split("vocab"))
	tok := gen.Tokenizers[0]
	w := world.New(caseID, kind, v, tok)
	defer w.Close()
	clock := &stores.Clock{}
	log := stores.NewLog(clock)
	w.Instrument(log)
	pr := r.Split("plan")
	var pmu sync.Mutex
	log.Plan = &stores.Plan{Decide: func(c *stores.Call) stores.Action {
		pmu.Lock()
		defer pmu.Unlock()
		switch pr.Intn(10) {
		case 0:
			return stores.Action{Delay: time.Duration(pr.Range(20, 800)) * time.Microsecond}
		case 1:
			return stores.Action{Delay: -1}
		}
		return stores.Action{}
	}}
	spec := gen.PickEngineSpec(r.Split("spec"), v, tok)
	spec.BufRows = core.Pick(r, []int{3, 8, 20})
	spec.BufBytes = 1 << 20
	spec.RGRows = core.Pick(r, []int{10, 50, 1000})
	spec.RGBytes = 10 << 20
	spec.MergeFiles = core.Pick(r, []int{2, 3, 5})
	spec.MaxFileSize = 10 << 30
	spec.IngestBuf = 16
	spec.QueryConc = core.Pick(r, []int{2, 8, 100})
	spec.Compression = core.Pick(r, []string{"none", "snappy"})
	if _, err := w.AddEngine(spec); err != nil {
		rc.Violate(i, "scenario-failed", "", err.Error(), nil)
		return
	}
	e := w.Eng[0]
	pm := installPoints(r.Split("points"), true, 1500)
	defer pm.uninstall(rc.Res)

	var mu sync.Mutex           // ledger
	acked := map[string]int64{} // vid -> ack tick
	ingested := map[string]bool{}
	partOf := map[string]string{} // vid -> the partition id the engine's PartitionFunc gives the row
	var merges []*c14Merge
	var curMerge *c14Merge
	w.IMeta.BeforeUpdate = func(ws []bs.WriteOperation, ds []bs.DeleteOperation) {
		if len(ds) == 0 {
			return
		}
		// a merge commit: remember which rows its sources hold
		vids := map[string]bool{}
		for _, d := range ds {
			raw, err := w.FileBytes(string(d.FilePointerBytes))
			if err != nil {
				continue
			}
			ft, err := extfmt.ParseFooter(raw)
			if err != nil {
				continue
			}
			for _, b := range ft.Meta.DataBlocks {
				if b.RowDataOffset < 0 || b.RowDataOffset+b.RowDataSize > len(raw) {
					continue
				}
				plain, err := extfmt.Decompress(b.Compression, raw[b.RowDataOffset:b.RowDataOffset+b.RowDataSize])
				if err != nil {
					continue
				}
				rows, _ := extfmt.SplitRows(plain)
				for _, row := range rows {
					vids[world.VidOfJSON(row)] = true
				}
			}
		}
		mu.Lock()
		if curMerge != nil {
			for k := range vids {
				curMerge.vids[k] = true
			}
			curMerge.committed = true
		}
		mu.Unlock()
	}

	stop := make(chan struct{})
	var wg sync.WaitGroup
	writers := r.Range(2, 4)
	var rowMu sync.Mutex
	rr := r.Split("rows")
	var flushes atomic.Int64
	maxFlushes := int64(r.Range(40, 120))
	for wi := 0; wi < writers; wi++ {
		wg.Add(1)
		go func() {
			defer wg.Done()
			for {
				select {
				case <-stop:
					return
				default:
				}
				// the data set stops growing after a while (queries scan every file: an
				// ever-growing store makes each query slower, which keeps the writers going
				// longer still); from then on the merger and the queries run over a stable row set
				if flushes.Load() >= maxFlushes {
					time.Sleep(2 * time.Millisecond)
					continue
				}
				rowMu.Lock()
				rows, recs := makeBatch(rr, w, "normal")
				rowMu.Unlock()
				mu.Lock()
				for _, rec := range recs {
					ingested[rec.VID] = true
					partOf[rec.VID] = rec.Part
				}
				mu.Unlock()
				ch := make(chan error, 2)
				if err := e.IngestRows(context.Background(), rows, ch); err != nil {
					return
				}
				ctx, cancel := context.WithTimeout(context.Background(), core.Patience)
				e.Flush(ctx)
				cancel()
				select {
				case err := <-ch:
					if err == nil {
						t := clock.Tick()
						mu.Lock()
						for _, rec := range recs {
							acked[rec.VID] = t
							rec.Count = 1
						}
						mu.Unlock()
						flushes.Add(1)
					}
				case <-time.After(core.Patience):
					return
				}
				time.Sleep(time.Duration(200) * time.Microsecond)
			}
		}()
	}
	wg.Add(1)
	go func() { // merger
		defer wg.Done()
		for {
			select {
			case <-stop:
				return
			default:
			}
			m := &c14Merge{call: clock.Tick(), vids: map[string]bool{}}
			mu.Lock()
			curMerge = m
			mu.Unlock()
			ctx, cancel := context.WithTimeout(context.Background(), core.Patience)
			e.Merge(ctx)
			cancel()
			mu.Lock()
			m.ret = clock.Tick()
			curMerge = nil
			if m.committed {
				merges = append(merges, m)
			}
			mu.Unlock()
			time.Sleep(300 * time.Microsecond)
		}
	}()
	type qrec struct {
		t0, t1   int64
		ackedAt0 map[string]bool
		res      *world.QueryResult
		q        *bs.Query
		part     string // non-empty: the query carries a partition prefilter on this id ...
		partNeg  bool   // ... PartitionNotEquals instead of PartitionEquals
	}
	var qmu sync.Mutex
	var qrecs []*qrec
	qloops := r.Range(4, 12)
	perLoop := 12
	if rc.Tier == "thorough" {
		perLoop = 25
	}
	var qwg sync.WaitGroup
	for ql := 0; ql < qloops; ql++ {
		qwg.Add(1)
		go func(ql int) {
			defer qwg.Done()
			for k := 0; k < perLoop; k++ {
				q := &bs.Query{}
				if (ql+k)%3 == 0 {
					q = bs.NewQuery().Field("_vid").Build()
				}
				mu.Lock()
				t0 := clock.Tick()
				snap := make(map[string]bool, len(acked))
				for vid := range acked {
					snap[vid] = true
				}
				// One loop in four (under a partition function) runs partition-prefiltered
				// queries next to the unfiltered ones: they keep some blocks of a
				// multi-partition file and drop others, so whatever a query does to the
				// listing it was handed is visible to the queries and merges around it.
				part, partNeg := "", false
				if ql%4 == 1 && spec.Part.Fn != nil {
					var parts []string
					seen := map[string]bool{}
					for vid := range acked {
						if pp := partOf[vid]; pp != "" && !seen[pp] {
							seen[pp] = true
							parts = append(parts, pp)
						}
					}
					if len(parts) > 0 {
						sort.Strings(parts)
						part, partNeg = parts[(ql+3*k)%len(parts)], k%2 == 1
						cond := bs.PartitionEquals(part)
						if partNeg {
							cond = bs.PartitionNotEquals(part)
						}
						q = bs.NewQuery().MatchPrefilter(bs.Partition(cond)).Build()
					}
				}
				mu.Unlock()
				ctx, cancel := context.WithTimeout(context.Background(), core.Patience)
				res := world.RunQuery(ctx, e, q)
				cancel()
				t1 := clock.Tick()
				qmu.Lock()
				qrecs = append(qrecs, &qrec{t0: t0, t1: t1, ackedAt0: snap, res: res, q: q, part: part, partNeg: partNeg})
				qmu.Unlock()
				time.Sleep(100 * time.Microsecond)
			}
		}(ql)
	}
	qwg.Wait()
	close(stop)
	wg.Wait()

	mu.Lock()
	defer mu.Unlock()
	desc := map[string]any{"case": caseID, "stores": kind, "engine": spec, "writers": writers, "query_loops": qloops, "flushes": flushes.Load(), "merges_committed": len(merges)}
	rc.Res.Count("runs."+string(kind), 1)
	rc.Res.Count("flushes", flushes.Load())
	rc.Res.Count("merges_committed", int64(len(merges)))
	overlapsMerge := func(q *qrec, vid string) bool {
		for _, m := range merges {
			if m.vids[vid] && m.call <= q.t1 && q.t0 <= m.ret {
				return true
			}
		}
		return false
	}
	for qi, q := range qrecs {
		rc.Res.Eval(1)
		rc.Res.Count("queries", 1)
		overlap := false
		for _, m := range merges {
			if m.call <= q.t1 && q.t0 <= m.ret {
				overlap = true
			}
		}
		if overlap {
			rc.Res.Count("queries_overlapping_merge", 1)
			rc.Res.Nontrivial(caseID, qi)
		}
		if q.res.QErr != nil {
			rc.Violate(i, "query-refused", "", q.res.QErr.Error(), desc)
			return
		}
		var dups, foreign, missing []string
		for vid, n := range q.res.VIDs {
			if !ingested[vid] {
				foreign = append(foreign, vid)
			}
			if n > 1 {
				dups = append(dups, vid)
			}
		}
		if q.part != "" {
			rc.Res.Count("queries_with_partition_prefilter", 1)
		}
		if q.res.Err == nil {
			for vid := range q.ackedAt0 {
				if q.part != "" {
					// a row is owed by a partition-prefiltered query only if its own
					// (non-empty) partition id satisfies the condition
					if pp := partOf[vid]; pp == "" || (pp == q.part) == q.partNeg {
						continue
					}
				}
				if q.res.VIDs[vid] == 0 {
					missing = append(missing, vid)
				}
			}
		} else {
			rc.Res.Count("queries_with_error", 1)
		}
		report := func(anomaly string, vids []string) bool {
			sort.Strings(vids)
			sig := ""
			if kind == world.StoreFS && (anomaly == "duplicate" || anomaly == "omission") {
				all := true
				for _, vid := range vids {
					if !overlapsMerge(q, vid) {
						all = false
					}
				}
				if all {
					sig = "fs-metastore-merge-window-" + anomaly
				}
			}
			ex := vids
			if len(ex) > 5 {
				ex = ex[:5]
			}
			msg := map[string]string{
				"duplicate": "a query with Err == %v returned %d row(s) more than once (e.g. %v)",
				"omission":  "a query with Err == %v omitted %d row(s) acknowledged before it started (e.g. %v)",
				"foreign":   "a query with Err == %v returned %d row(s) that were never ingested (e.g. %v)",
			}[anomaly]
			rc.Violate(i, "snapshot-"+anomaly, sig, fmt.Sprintf(msg, q.res.Err, len(vids), ex), map[string]any{"run": desc, "query": queryJSON(q.q), "t0": q.t0, "t1": q.t1, "rows_returned": len(q.res.Rows), "merge_windows": func() [][2]int64 {
				var out [][2]int64
				for _, m := range merges {
					out = append(out, [2]int64{m.call, m.ret})
				}
				return out
			}()})
			return sig != ""
		}
		if len(foreign) > 0 {
			report("foreign", foreign)
			return
		}
		if len(dups) > 0 && !report("duplicate", dups) {
			return
		}
		if len(missing) > 0 && !report("omission", missing) {
			return
		}
	}
	if i < 3 {
		rc.Res.Sample(map[string]any{"run": desc, "queries": len(qrecs)})
	}
}

// ---------- porcupine: MemoryMetaStore.Update vs snapshot iteration ----------

type pcInput struct {
	Base    int // > 0: the initial population of that many base pointers (listed in no other field)
	Update  bool
	Writes  []string
	Deletes []string
}

// setString is the canonical form of a pointer set. Base pointers ("b0000" .. "b<n-1>") are the
// bulk of a large store and almost all of them stay: the form lists only which of them are
// missing, plus every other pointer, so that model states stay small however many files the
// store holds ("<n>|missing base indices|other pointers").
func setString(m map[string]bool) string { return setStringN(m, pcBaseN.Load()) }

var pcBaseN atomic.Int64 // base population of the history being checked (one history at a time per process)

func setStringN(m map[string]bool, n int64) string {
	var missing, other []string
	for k := int64(0); k < n; k++ {
		if p := fmt.Sprintf("b%04d", k); !m[p] {
			missing = append(missing, p[1:])
		}
	}
	for k := range m {
		if len(k) == 5 && k[0] == 'b' {
			if idx, err := strconv.ParseInt(k[1:], 10, 64); err == nil && idx < n {
				continue
			}
		}
		other = append(other, k)
	}
	sort.Strings(other)
	return fmt.Sprintf("%d|%s|%s", n, strings.Join(missing, ","), strings.Join(other, ","))
}

var pcModel = porcupine.Model{
	Init: func() any { return setStringN(map[string]bool{}, 0) },
	Step: func(state, input, output any) (bool, any) {
		in := input.(pcInput)
		st := state.(string)
		if !in.Update {
			return output.(string) == st, st
		}
		// apply the update on the compact form directly
		parts := strings.SplitN(st, "|", 3)
		n, _ := strconv.ParseInt(parts[0], 10, 64)
		if in.Base > 0 {
			// the initial population: every base pointer present
			return true, fmt.Sprintf("%d||%s", in.Base, parts[2])
		}
		miss := map[string]bool{}
		if parts[1] != "" {
			for _, k := range strings.Split(parts[1], ",") {
				miss[k] = true
			}
		}
		other := map[string]bool{}
		if parts[2] != "" {
			for _, k := range strings.Split(parts[2], ",") {
				other[k] = true
			}
		}
		isBase := func(k string) (string, bool) {
			if len(k) == 5 && k[0] == 'b' {
				if idx, err := strconv.ParseInt(k[1:], 10, 64); err == nil && idx < n {
					return k[1:], true
				}
			}
			return "", false
		}
		for _, k := range in.Writes {
			if idx, ok := isBase(k); ok {
				delete(miss, idx)
			} else {
				other[k] = true
			}
		}
		for _, k := range in.Deletes {
			if idx, ok := isBase(k); ok {
				miss[idx] = true
			} else {
				delete(other, k)
			}
		}
		ms := make([]string, 0, len(miss))
		for k := range miss {
			ms = append(ms, k)
		}
		sort.Strings(ms)
		os := make([]string, 0, len(other))
		for k := range other {
			os = append(os, k)
		}
		sort.Strings(os)
		return true, fmt.Sprintf("%d|%s|%s", n, strings.Join(ms, ","), strings.Join(os, ","))
	},
	Equal: func(a, b any) bool { return a.(string) == b.(string) },
	DescribeOperation: func(input, output any) string {
		in := input.(pcInput)
		if in.Update {
			return fmt.Sprintf("Update(+%v -%v)", in.Writes, in.Deletes)
		}
		return fmt.Sprintf("Snapshot() = {%v}", output)
	},
}

func runC14Porcupine(rc *RunCtx, i int) {
	r := rc.CaseRand(i)
	histories := 12
	if rc.Tier == "thorough" {
		histories = 30
	}
	pm := installPoints(r.Split("points"), true, 600)
	defer pm.uninstall(rc.Res)
	for h := 0; h < histories; h++ {
		ms := bs.NewMemoryMetaStore()
		clients := r.Range(2, 4)
		opsPer := r.Range(3, 10)
		var clock atomic.Int64
		var mu sync.Mutex
		var ops []porcupine.Operation
		var wg sync.WaitGroup
		var next atomic.Int64
		// the store may already hold many files (hundreds: more than any internal page or batch
		// size a store might iterate in); each client owns a slice of them to delete later
		base := core.Pick(r, []int{0, 0, 30, 300, 700})
		owned := make([][]string, clients)
		pcBaseN.Store(int64(base))
		if base > 0 {
			in := pcInput{Update: true, Base: base}
			var ws []bs.WriteOperation
			for k := 0; k < base; k++ {
				p := fmt.Sprintf("b%04d", k)
				ws = append(ws, bs.WriteOperation{FileMetadata: &bs.FileMetadata{}, FilePointerBytes: []byte(p)})
				owned[k%clients] = append(owned[k%clients], p)
			}
			call := clock.Add(1)
			ms.Update(context.Background(), ws, nil)
			ops = append(ops, porcupine.Operation{ClientId: 0, Input: in, Call: call, Output: "", Return: clock.Add(1)})
			rc.Res.Count("porcupine_histories_over_large_store", 1)
		}
		for c := 0; c < clients; c++ {
			cr := r.Split("client", h, c)
			wg.Add(1)
			go func(c int) {
				defer wg.Done()
				var mine []string
				// delete from the far end first: what an iteration in progress has not reached yet
				for lo, hi := 0, len(owned[c])-1; lo < hi; lo, hi = lo+1, hi-1 {
					owned[c][lo], owned[c][hi] = owned[c][hi], owned[c][lo]
				}
				mine = append(mine, owned[c]...)
				for k := 0; k < opsPer; k++ {
					if cr.Chance(0.5) {
						in := pcInput{Update: true}
						for n := cr.Range(1, 3); n > 0; n-- {
							p := fmt.Sprintf("f%d", next.Add(1))
							in.Writes = append(in.Writes, p)
							mine = append(mine, p)
						}
						if len(mine) > 2 && cr.Bool() {
							// delete some of this client's earlier files in the same atomic update (a merge)
							in.Deletes = append(in.Deletes, mine[0], mine[1])
							mine = mine[2:]
						}
						var ws []bs.WriteOperation
						for _, p := range in.Writes {
							ws = append(ws, bs.WriteOperation{FileMetadata: &bs.FileMetadata{}, FilePointerBytes: []byte(p)})
						}
						var ds []bs.DeleteOperation
						for _, p := range in.Deletes {
							ds = append(ds, bs.DeleteOperation{FilePointerBytes: []byte(p)})
						}
						call := clock.Add(1)
						ms.Update(context.Background(), ws, ds)
						ret := clock.Add(1)
						mu.Lock()
						ops = append(ops, porcupine.Operation{ClientId: c, Input: in, Call: call, Output: "", Return: ret})
						mu.Unlock()
					} else {
						call := clock.Add(1)
						got := map[string]bool{}
						for f, err := range ms.GetMaybeFilesForQuery(context.Background(), nil) {
							if err != nil {
								break
							}
							got[string(f.PointerBytes)] = true
							if cr.Chance(0.3) {
								time.Sleep(time.Duration(cr.Range(10, 200)) * time.Microsecond)
							}
						}
						ret := clock.Add(1)
						mu.Lock()
						ops = append(ops, porcupine.Operation{ClientId: c, Input: pcInput{}, Call: call, Output: setString(got), Return: ret})
						mu.Unlock()
					}
				}
			}(c)
		}
		wg.Wait()
		res, info := porcupine.CheckOperationsVerbose(pcModel, ops, 20*time.Second)
		rc.Res.Eval(1)
		rc.Res.Count("porcupine_histories", 1)
		rc.Res.Count("porcupine_ops", int64(len(ops)))
		rc.Res.Nontrivial("pc", i, h, len(ops))
		switch res {
		case porcupine.Ok:
		case porcupine.Unknown:
			rc.Res.Inconc(fmt.Sprintf("porcupine timeout on history %d.%d (%d ops)", i, h, len(ops)))
		default:
			var lines []string
			for _, op := range ops {
				lines = append(lines, fmt.Sprintf("client %d [%d,%d] %s", op.ClientId, op.Call, op.Return, pcModel.DescribeOperation(op.Input, op.Output)))
			}
			_ = info
			rc.Violate(i, "metastore-not-linearizable", "", "a concurrent history of MemoryMetaStore.Update and snapshot iterations is not linearizable against an atomic set-of-pointers model", lines)
			return
		}
		if h == 0 && i < 8 {
			rc.Res.Sample(map[string]any{"porcupine_history_ops": len(ops), "clients": clients})
		}
	}
}

var _ = os.ReadFile
