package mon

import (
	"context"
	"fmt"
	"sort"
	"strings"

	bs "github.com/danthegoodman1/bloomsearch"

	"verifharness/core"
	"verifharness/gen"
	"verifharness/refsem"
	"verifharness/stores"
	"verifharness/world"
)

func init() {
	Register(&Check{
		Spec: core.Spec{ID: "C11", Level: "exploration",
			Rule:        "case = population of files written by 1-3 engine configs over one store pair, then up to 6 Merge rounds by an engine with freshly drawn limits; each committed Merge is checked for row conservation, partition/minmax coverage and identical query answers (30 queries before/after); non-trivial = a Merge round that committed (MetaStore.Update applied); distinct = distinct (population, round)",
			Assumptions: []string{"reference semantics in harness/refsem", "engines sharing a store share a tokenizer"},
			Floors:      map[string]int64{"merges_committed": 15, "queries_compared": 300}},
		Cases: func(t string) int { return nQueries(t, 64, 2000) },
		Run:   func(rc *RunCtx, i int) { runMergeCase(rc, i, true) },
	})
	Register(&Check{
		Spec: core.Spec{ID: "C12", Level: "exploration",
			Rule:        "same populations as C11; each committed Merge's MetaStore.Update (writes, deletes) is mapped back to source blocks through row ids: combined blocks within MaxRowGroupRows/Bytes and from one partition + one minmax key set, copied blocks identical, deletes <= MaxFilesToMergePerOperation, sources per output <= MaxFileSize (sum of block on-disk sizes); non-trivial = committed Merge that combined at least two blocks; distinct = distinct (population, round)",
			Assumptions: []string{"a file's size for merging = sum of its blocks' OnDiskSize() (the engine's documented measure)"},
			Floors:      map[string]int64{"merges_committed": 15, "blocks_combined": 10}},
		Cases: func(t string) int { return nQueries(t, 128, 3000) },
		Run:   func(rc *RunCtx, i int) { runMergeCase(rc, i, false) },
	})
}

func vidMultiset(inv []*world.FileInv) map[string]int {
	m := map[string]int{}
	for _, f := range inv {
		for _, b := range f.Blocks {
			for _, v := range b.VIDs {
				m[v]++
			}
		}
	}
	return m
}

func keySetOf(m map[string]bs.MinMaxIndex) string {
	ks := make([]string, 0, len(m))
	for k := range m {
		ks = append(ks, fmt.Sprintf("%d:%s", len(k), k))
	}
	sort.Strings(ks)
	return strings.Join(ks, ",")
}

func runMergeCase(rc *RunCtx, i int, content bool) {
	r := rc.CaseRand(i)
	caseID := fmt.Sprintf("%s%d_%d", strings.ToLower(rc.ID), rc.Seed, i)
	log := stores.NewLog(&stores.Clock{})
	o := world.BuildOpts{NoMerge: true, MaxRows: 120, ManyFiles: i%2 == 1}
	w, d, err := world.BuildWith(r, caseID, o, func(w *world.World) { w.Instrument(log) })
	if err != nil {
		rc.Violate(i, "scenario-failed", "", "fault-free scenario failed: "+err.Error(), nil)
		return
	}
	defer w.Close()
	if i%4 == 3 {
		// A chain population: file j holds rows of partitions c<j> and (mostly) c<j+1>, so the
		// files' compatibility graph is a path and greedy grouping has to bridge: whether a file
		// can join depends on which files joined before it. Row sizes vary per file so that the
		// size order differs from the chain order.
		cspec := w.Specs[0]
		cspec.Part = gen.PartFunc{Name: "byKey:cp", Fn: func(row map[string]any) string { s, _ := row["cp"].(string); return s }}
		cspec.Partition = cspec.Part.Name
		cspec.MinMax = nil
		cspec.BufRows, cspec.BufBytes, cspec.RGRows, cspec.RGBytes = 1<<20, 1<<30, 1<<20, 1<<30
		if ci, cerr := w.AddEngine(cspec); cerr == nil {
			cr := r.Split("chain")
			for j, n := 0, cr.Range(3, 6); j < n; j++ {
				pad := strings.Repeat("x", core.Pick(cr, []int{0, 0, 40, 300, 900}))
				var recs []*world.RowRec
				parts := []string{fmt.Sprintf("c%d", j)}
				if cr.Chance(0.7) {
					parts = append(parts, fmt.Sprintf("c%d", j+1))
				}
				for _, pid := range parts {
					for k, m := 0, cr.Range(1, 3); k < m; k++ {
						recs = append(recs, w.NewRowWith(cr, ci, func(row map[string]any) {
							row["cp"] = pid
							if pad != "" {
								row["pad"] = pad
							}
						}))
					}
				}
				if err := w.IngestSync(ci, [][]*world.RowRec{recs}); err != nil {
					rc.Violate(i, "scenario-failed", "", "chain population: "+err.Error(), nil)
					return
				}
			}
			rc.Res.Count("populations_with_chain", 1)
		}
	}
	// the merging engine: fresh limits, same tokenizer, shares the stores
	mspec := gen.PickEngineSpec(r.Split("mergespec"), w.Vocab, w.Tok)
	mspec.RGRows = core.Pick(r, []int{1, 2, 4, 8, 20, 100, 10000})
	mspec.RGBytes = core.Pick(r, []int{100, 400, 1500, 6000, 50000, 10 << 20})
	mspec.MaxFileSize = core.Pick(r, []int{500, 3000, 20000, 1 << 20, 10 << 30})
	mspec.MergeFiles = core.Pick(r, []int{2, 2, 3, 3, 4, 5, 10, 100})
	if i%2 == 0 || i%4 == 3 {
		// limits that bind on this very population: MaxFileSize = the size of two or three of its
		// files together (so that some groups fit exactly and one more file does not), row-group
		// limits = the rows/bytes of two or three of its blocks together
		if pre, perr := w.Inventory(); perr == nil && len(pre) >= 2 {
			var fileSizes, blockRows, blockBytes []int
			for _, f := range pre {
				sz := 0
				for _, b := range f.Blocks {
					sz += b.Meta.OnDiskSize()
					blockRows = append(blockRows, b.Meta.Rows)
					blockBytes = append(blockBytes, b.Meta.UncompressedSize)
				}
				fileSizes = append(fileSizes, sz)
			}
			sum := func(xs []int, n int) int {
				t := 0
				for _, j := range r.Perm(len(xs))[:min(n, len(xs))] {
					t += xs[j]
				}
				return t
			}
			mspec.MaxFileSize = max(1, sum(fileSizes, r.Range(2, 3))+core.Pick(r, []int{0, 0, -1, 1, 7}))
			if r.Bool() {
				mspec.RGRows = max(1, sum(blockRows, r.Range(2, 3)))
			}
			if r.Bool() {
				mspec.RGBytes = max(1, sum(blockBytes, r.Range(2, 3))+core.Pick(r, []int{0, 0, -1, 1}))
			}
			rc.Res.Count("populations_with_binding_limits", 1)
		}
	}
	mi, err := w.AddEngine(mspec)
	if err != nil {
		rc.Violate(i, "scenario-failed", "", "merge engine: "+err.Error(), nil)
		return
	}
	d.Engines = w.Specs
	me := w.Eng[mi]
	rc.Res.Count("populations", 1)

	var queries []*bs.Query
	if content {
		facts := w.Facts()
		qr := r.Split("queries")
		for len(queries) < 30 {
			q := facts.Query(qr)
			if refsem.CheckRegex(regexOf(q)) == refsem.RegexInvalid {
				continue
			}
			queries = append(queries, q)
		}
	}
	runAll := func() []*world.QueryResult {
		out := make([]*world.QueryResult, len(queries))
		for k, q := range queries {
			ctx, cancel := context.WithTimeout(context.Background(), core.Patience)
			out[k] = world.RunQuery(ctx, me, q)
			cancel()
		}
		return out
	}

	before, err := w.Inventory()
	if err != nil {
		rc.Violate(i, "inventory-failed", "", err.Error(), d)
		return
	}
	var resBefore []*world.QueryResult
	if content {
		resBefore = runAll()
	}
	for round := 0; round < 6; round++ {
		nUpd := len(w.IMeta.UpdateRecs())
		ctx, cancel := context.WithTimeout(context.Background(), core.Patience)
		_, merr := me.Merge(ctx)
		cancel()
		rc.Res.Eval(1)
		rc.Res.Count("merge_calls", 1)
		if merr != nil {
			rc.Violate(i, "merge-failed", "", "Merge failed on healthy stores: "+merr.Error(), d)
			return
		}
		upds := w.IMeta.UpdateRecs()[nUpd:]
		if len(upds) == 0 {
			rc.Res.Count("merge_noop", 1)
			break
		}
		if len(upds) > 1 {
			rc.Violate(i, "merge-multiple-updates", "", fmt.Sprintf("one Merge issued %d MetaStore.Update calls", len(upds)), d)
			return
		}
		rc.Res.Count("merges_committed", 1)
		if len(upds[0].Writes) > 1 {
			rc.Res.Count("merges_with_several_groups", 1)
		}
		after, err := w.Inventory()
		if err != nil {
			rc.Violate(i, "inventory-failed", "", "after merge: "+err.Error(), d)
			return
		}
		wit := func(extra any) map[string]any {
			return map[string]any{"scenario": d, "round": round, "merge_engine": mspec, "update": upds[0], "detail": extra}
		}
		if content {
			if !checkMergeContent(rc, i, w, before, after, wit) {
				return
			}
			resAfter := runAll()
			for k, q := range queries {
				a, b := resBefore[k], resAfter[k]
				rc.Res.Count("queries_compared", 1)
				if a.QErr != nil || a.Err != nil || b.QErr != nil || b.Err != nil {
					rc.Violate(i, "query-error-on-healthy-stores", "", fmt.Sprintf("before: %v %v after: %v %v", a.QErr, a.Err, b.QErr, b.Err), wit(queryJSON(q)))
					return
				}
				if !hasPrefilter(q) {
					if !sameCounts(a.VIDs, b.VIDs) {
						rc.Violate(i, "answer-changed-by-merge", "", fmt.Sprintf("a query without prefilter returned %d rows before and %d after the merge", len(a.Rows), len(b.Rows)), wit(queryJSON(q)))
						return
					}
					continue
				}
				for vid, n := range a.VIDs {
					if b.VIDs[vid] < n {
						rc.Violate(i, "prefilter-answer-shrank", "", fmt.Sprintf("row %s was returned before the merge and not after", vid), wit(queryJSON(q)))
						return
					}
				}
				for vid := range b.VIDs {
					rec := w.Rows[vid]
					if rec == nil || !rec.View.Match(q) {
						rc.Violate(i, "non-matching-row-after-merge", "", "row "+vid+" returned after the merge does not match the query", wit(queryJSON(q)))
						return
					}
				}
			}
			resBefore = resAfter
			rc.Res.Nontrivial(caseID, round)
		} else {
			combined, ok := checkMergeLimits(rc, i, w, mspec, before, after, upds[0], wit)
			if !ok {
				return
			}
			rc.Res.Count("blocks_combined", int64(combined))
			if combined > 0 {
				rc.Res.Nontrivial(caseID, round)
			}
		}
		if i < 2 && round == 0 {
			rc.Res.Sample(map[string]any{"scenario": d, "merge_engine": mspec, "files_before": len(before), "files_after": len(after), "update": upds[0]})
		}
		before = after
	}
}

func sameCounts(a, b map[string]int) bool {
	if len(a) != len(b) {
		return false
	}
	for k, v := range a {
		if b[k] != v {
			return false
		}
	}
	return true
}

func checkMergeContent(rc *RunCtx, i int, w *world.World, before, after []*world.FileInv, wit func(any) map[string]any) bool {
	mb, ma := vidMultiset(before), vidMultiset(after)
	if !sameCounts(mb, ma) {
		var diff []string
		for k, v := range mb {
			if ma[k] != v {
				diff = append(diff, fmt.Sprintf("%s:%d->%d", k, v, ma[k]))
			}
		}
		for k, v := range ma {
			if _, ok := mb[k]; !ok {
				diff = append(diff, fmt.Sprintf("%s:0->%d", k, v))
			}
		}
		sort.Strings(diff)
		if len(diff) > 10 {
			diff = diff[:10]
		}
		rc.Violate(i, "rows-not-conserved", "", fmt.Sprintf("the multiset of stored rows changed across a successful Merge: %v", diff), wit(nil))
		return false
	}
	for _, f := range after {
		for _, b := range f.Blocks {
			for _, vid := range b.VIDs {
				rec := w.Rows[vid]
				if rec == nil {
					rc.Violate(i, "foreign-row", "", "row "+vid+" was never ingested", wit(nil))
					return false
				}
				if rec.Part != b.Meta.PartitionID {
					rc.Violate(i, "partition-changed-by-merge", "", fmt.Sprintf("row %s (partition %q) now lives in a block of partition %q", vid, rec.Part, b.Meta.PartitionID), wit(nil))
					return false
				}
				for _, k := range rec.Keys {
					idx, ok := b.Meta.MinMaxIndexes[k]
					if !ok || !rec.Indexed[k].CoveredBy(idx) {
						rc.Violate(i, "minmax-lost-by-merge", "", fmt.Sprintf("row %s indexed %q=%v; its block after the merge has range %v (present=%v)", vid, k, rec.Row[k], idx, ok), wit(string(rec.JSON)))
						return false
					}
				}
			}
		}
	}
	return true
}

type srcBlock struct {
	file string
	idx  int
	inv  *world.BlockInv
}

func checkMergeLimits(rc *RunCtx, i int, w *world.World, mspec gen.EngineSpec, before, after []*world.FileInv, upd stores.UpdateRec, wit func(any) map[string]any) (int, bool) {
	combined := 0
	if len(upd.Deletes) > mspec.MergeFiles {
		rc.Violate(i, "too-many-files-merged", "", fmt.Sprintf("one Merge removed %d source files, MaxFilesToMergePerOperation = %d", len(upd.Deletes), mspec.MergeFiles), wit(nil))
		return 0, false
	}
	deleted := map[string]bool{}
	for _, p := range upd.Deletes {
		deleted[p] = true
	}
	written := map[string]bool{}
	for _, p := range upd.Writes {
		written[p] = true
	}
	srcOf := map[string]*srcBlock{} // vid -> source block
	fileSize := map[string]int{}
	for _, f := range before {
		for _, b := range f.Blocks {
			fileSize[f.Ptr] += b.Meta.OnDiskSize()
			if deleted[f.Ptr] {
				sb := &srcBlock{file: f.Ptr, idx: b.Index, inv: b}
				for _, v := range b.VIDs {
					srcOf[v] = sb
				}
			}
		}
	}
	for _, f := range after {
		if !written[f.Ptr] {
			continue
		}
		srcFiles := map[string]bool{}
		for _, b := range f.Blocks {
			srcs := map[*srcBlock]int{}
			for _, v := range b.VIDs {
				sb := srcOf[v]
				if sb == nil {
					rc.Violate(i, "output-holds-unmerged-row", "", "merge output holds row "+v+" that is not from a removed source file", wit(nil))
					return 0, false
				}
				srcs[sb]++
				srcFiles[sb.file] = true
			}
			bw := func() any {
				var ss []string
				for sb := range srcs {
					ss = append(ss, fmt.Sprintf("%s#%d(rows=%d,unc=%d,part=%q,keys=%s)", sb.file, sb.idx, sb.inv.Meta.Rows, sb.inv.Meta.UncompressedSize, sb.inv.Meta.PartitionID, keySetOf(sb.inv.Meta.MinMaxIndexes)))
				}
				sort.Strings(ss)
				return map[string]any{"output_block": b.Meta, "sources": ss}
			}
			for sb, n := range srcs {
				if n != len(sb.inv.VIDs) {
					rc.Violate(i, "source-block-split", "", fmt.Sprintf("an output block holds %d of the %d rows of a source block", n, len(sb.inv.VIDs)), wit(bw()))
					return 0, false
				}
			}
			if len(srcs) >= 2 {
				combined++
				if b.Meta.Rows > mspec.RGRows || len(b.VIDs) > mspec.RGRows {
					rc.Violate(i, "combined-block-too-many-rows", "", fmt.Sprintf("a block combined from %d blocks holds %d rows, MaxRowGroupRows = %d", len(srcs), len(b.VIDs), mspec.RGRows), wit(bw()))
					return 0, false
				}
				if b.Meta.UncompressedSize > mspec.RGBytes || len(b.RowData) > mspec.RGBytes {
					rc.Violate(i, "combined-block-too-many-bytes", "", fmt.Sprintf("a block combined from %d blocks holds %d uncompressed bytes, MaxRowGroupBytes = %d", len(srcs), len(b.RowData), mspec.RGBytes), wit(bw()))
					return 0, false
				}
				var part, keys string
				first := true
				for sb := range srcs {
					p, k := sb.inv.Meta.PartitionID, keySetOf(sb.inv.Meta.MinMaxIndexes)
					if first {
						part, keys, first = p, k, false
						continue
					}
					if p != part {
						rc.Violate(i, "combined-across-partitions", "", "a combined block mixes partitions", wit(bw()))
						return 0, false
					}
					if k != keys {
						rc.Violate(i, "combined-across-minmax-key-sets", "", "a combined block mixes source blocks with different minmax key sets", wit(bw()))
						return 0, false
					}
				}
			}
		}
		total := 0
		var names []string
		for sf := range srcFiles {
			total += fileSize[sf]
			names = append(names, fmt.Sprintf("%s(%d)", sf, fileSize[sf]))
		}
		if total > mspec.MaxFileSize {
			sort.Strings(names)
			rc.Violate(i, "merged-files-exceed-max-file-size", "", fmt.Sprintf("the files merged into one output total %d bytes, MaxFileSize = %d", total, mspec.MaxFileSize), wit(names))
			return 0, false
		}
		if len(srcFiles) < 2 {
			rc.Res.Count("outputs_from_single_file", 1)
		}
	}
	return combined, true
}
