package mon

import (
	"bytes"
	"context"
	"fmt"
	"math"
	"strings"

	"github.com/bits-and-blooms/bloom/v3"
	bs "github.com/danthegoodman1/bloomsearch"

	"verifharness/core"
	"verifharness/gen"
	"verifharness/refsem"
	"verifharness/world"
)

func init() {
	Register(&Check{
		Spec: core.Spec{ID: "C26", Level: "exploration",
			Rule:        "case = one engine with BloomFalsePositiveRate p in {0.3, 0.1, 0.01, 0.001, 1e-4} ingesting rows built to carry a chosen number of distinct tokens (1 .. 50 000 quick, .. 300 000 thorough, plus volume cases (quick: one of 900 000 distinct tokens at 1e-4; thorough: one in 40, 600 000 - 2 500 000 at 0.001 / 1e-4) in one file, flushed at once or merged from three files; few distinct field names with many tokens, the realistic skew), flushed as one or several blocks and in some cases merged. Every fourth case has two engine configurations with different rates sharing the store (one writes, the other merges; blocks that are rebuilt and blocks that are copied end up side by side), and each filter is then probed against the rate its own metadata records, which must be one of the two configured rates. Every filter (field, token, field:token; block level and file level) is read back through ReadFileMetadata / ReadDataBlockBloomFilters, its distinct entry count n measured with the reference walker, and probed with N = max(2e5, 200/p) (cap 2e7) strings that were never inserted (disjoint alphabet). Every fifth case puts each text under 2, 4 or 8 fields, so that the field, token and field:token filters of one block hold very different numbers of entries. Oracle: observed rate <= 3p + 6*sqrt(3p(1-3p)/N) (3 = the maintainers' documented tolerance, 6 sigma = probe sampling error). evaluations = filters probed; non-trivial = filter with n >= 50; distinct = distinct (n, p, level, kind)",
			Assumptions: []string{"tolerance 3x the configured rate as pinned by TestFalsePositiveRateWithinBudget", "probe strings start with a byte (0x01) no generator emits"},
			Floors:      map[string]int64{"filters_probed": 60, "filters_n_ge_50": 20, "probes": 5000000, "volume_cases": 1, "two_engine_cases": 3, "cases_with_text_under_several_fields": 3}},
		Cases: func(t string) int { return nQueries(t, 24, 320) },
		Run:   runC26,
	})
}

func probeFilter(f *bloom.BloomFilter, n uint64, salt string) (hits uint64) {
	buf := make([]byte, 0, 64)
	for k := uint64(0); k < n; k++ {
		buf = append(buf[:0], 1)
		buf = append(buf, salt...)
		buf = appendUint(buf, k)
		if f.Test(buf) {
			hits++
		}
	}
	return hits
}

func appendUint(b []byte, v uint64) []byte {
	if v == 0 {
		return append(b, '0')
	}
	var tmp [20]byte
	i := len(tmp)
	for v > 0 {
		i--
		tmp[i] = byte('0' + v%10)
		v /= 10
	}
	return append(b, tmp[i:]...)
}

func runC26(rc *RunCtx, i int) {
	r := rc.CaseRand(i)
	p := core.Pick(r, []float64{0.3, 0.1, 0.01, 0.001, 1e-4})
	volumes := []int{1, 3, 10, 40, 60, 200, 1000, 5000, 20000, 50000}
	if rc.Tier == "thorough" {
		volumes = append(volumes, 100000, 300000)
	}
	n := core.Pick(r, volumes)
	// volume cases: one file holding several hundred thousand to over a million distinct entries
	// (a long merge history or one very large flush), where a filter's size reaches megabytes
	volumeCase := (rc.Tier != "thorough" && i == 5) || (rc.Tier == "thorough" && i%40 == 5)
	if volumeCase {
		// quick: 900 000 entries at 1e-4 (17 Mbit per filter); thorough also 0.001 and 1.5 M / 2.5 M
		p, n = 1e-4, 900000
		if rc.Tier == "thorough" {
			p = core.Pick(r, []float64{0.001, 1e-4})
			n = core.Pick(r, []int{600000, 900000, 1500000, 2500000})
		}
		rc.Res.Count("volume_cases", 1)
	}
	caseID := fmt.Sprintf("c26_%d_%d", rc.Seed, i)
	v := gen.NewVocab(r.Split("vocab"))
	tok := gen.Tokenizers[0]
	w := world.New(caseID, world.StoreMem, v, tok)
	defer w.Close()
	spec := gen.PickEngineSpec(r.Split("spec"), v, tok)
	spec.FPR = p
	spec.Part = gen.PartFunc{Name: "none"}
	spec.Partition = "none"
	// a third of the cases flush several partitions at once, each holding the same number of
	// distinct tokens (blocks whose filters share one shape; the file filter must still be
	// sized for the union)
	parts := 1
	if i%3 == 2 && !(volumeCase && (rc.Tier != "thorough" || r.Bool())) {
		parts = core.Pick(r, []int{2, 4, 8})
		spec.Part = gen.PartFunc{Name: fmt.Sprintf("byKey:p(%d)", parts), Fn: func(row map[string]any) string { s, _ := row["p"].(string); return s }}
		spec.Partition = spec.Part.Name
	}
	// every fourth case: two engine configurations share the store. The writer builds its filters
	// at one rate; a second engine with another rate merges. Blocks the merge rebuilds must meet
	// the merger's rate, blocks it copies keep the writer's filters and must keep the writer's
	// recorded rate: each filter is probed against the rate its own metadata records.
	twoEngines := i%4 == 1 && !volumeCase
	mergerRate := p
	if twoEngines {
		if r.Chance(0.75) {
			// the interesting direction: a loose writer and a tight merger
			p = core.Pick(r, []float64{0.3, 0.1, 0.05})
			mergerRate = core.Pick(r, []float64{0.001, 1e-4})
		} else {
			mergerRate = core.Pick(r, []float64{0.3, 0.05, 0.001, 1e-4})
			for mergerRate == p {
				mergerRate = core.Pick(r, []float64{0.3, 0.05, 0.001, 1e-4})
			}
		}
		if n < 1000 {
			n = core.Pick(r, []int{1000, 5000, 20000})
		}
		parts = 2
		spec.Part = gen.PartFunc{Name: "byKey:p(shared+own)", Fn: func(row map[string]any) string { s, _ := row["p"].(string); return s }}
		spec.Partition = spec.Part.Name
		rc.Res.Count("two_engine_cases", 1)
	}
	spec.FPR = p
	spec.MinMax = nil
	spec.Compression = "snappy"
	blocksWanted := core.Pick(r, []int{1, 1, 2, 4})
	if twoEngines {
		blocksWanted = core.Pick(r, []int{2, 3, 4})
	}
	if volumeCase {
		blocksWanted = core.Pick(r, []int{1, 3})
	}
	spec.BufRows, spec.BufBytes, spec.RGRows, spec.RGBytes = 1<<30, 1<<30, 1<<30, 1<<30
	spec.MaxFileSize, spec.MergeFiles = 10<<30, 10
	if _, err := w.AddEngine(spec); err != nil {
		rc.Violate(i, "scenario-failed", "", err.Error(), nil)
		return
	}
	mergeEngine := 0
	if twoEngines {
		spec2 := spec
		spec2.FPR = mergerRate
		mi, err := w.AddEngine(spec2)
		if err != nil {
			rc.Violate(i, "scenario-failed", "", err.Error(), nil)
			return
		}
		mergeEngine = mi
	}
	copies := 1
	if i%5 == 3 && !volumeCase {
		copies = core.Pick(r, []int{2, 4, 8})
		if n > 20000 {
			n = 20000
		}
		rc.Res.Count("cases_with_text_under_several_fields", 1)
	}
	// rows: up to 50 tokens per row, n distinct tokens in total, split over blocksWanted flushes
	perRow := 50
	tokenID := 0
	vid := 0
	for b := 0; b < blocksWanted; b++ {
		share := n / blocksWanted
		if b == blocksWanted-1 {
			share = n - share*(blocksWanted-1)
		}
		if share == 0 {
			continue
		}
		if parts > 1 {
			// equal shares: whole rows of perRow tokens, a multiple of the partition count
			rowsN := share / perRow / parts * parts
			if rowsN < parts {
				rowsN = parts
			}
			share = rowsN * perRow
		}
		var recs []*world.RowRec
		for share > 0 {
			k := perRow
			if k > share {
				k = share
			}
			var sb strings.Builder
			for j := 0; j < k; j++ {
				fmt.Fprintf(&sb, "t%07d ", tokenID)
				tokenID++
			}
			share -= k
			vid++
			row := map[string]any{"_vid": fmt.Sprintf("v%s_%d", caseID, vid), "t": sb.String()}
			// the same text under several fields: the three filter kinds then hold very different
			// numbers of entries (pairs = copies x tokens), so a filter sized from another
			// kind's count shows
			for c := 1; c < copies; c++ {
				row[fmt.Sprintf("t%d", c)] = row["t"]
			}
			if twoEngines {
				// one partition every file has (its blocks get rebuilt together) and one that
				// only this file has (its block is copied as it is)
				row["p"] = core.Pick(r, []string{"shared", fmt.Sprintf("own%d", b)})
			} else if parts > 1 {
				row["p"] = fmt.Sprintf("part%d", vid%parts)
			}
			rec, err := w.Register(row, 0)
			if err != nil {
				rc.Violate(i, "scenario-failed", "", err.Error(), nil)
				return
			}
			recs = append(recs, rec)
		}
		if err := w.IngestSync(0, [][]*world.RowRec{recs}); err != nil {
			rc.Violate(i, "scenario-failed", "", err.Error(), nil)
			return
		}
	}
	merged := false
	if blocksWanted > 1 && (r.Bool() || volumeCase || twoEngines) {
		ctx, cancel := context.WithTimeout(context.Background(), core.Patience)
		_, err := w.Eng[mergeEngine].Merge(ctx)
		cancel()
		if err != nil {
			rc.Violate(i, "scenario-failed", "", "merge: "+err.Error(), nil)
			return
		}
		merged = true
	}
	inv, err := w.Inventory()
	if err != nil {
		rc.Violate(i, "scenario-failed", "", err.Error(), nil)
		return
	}
	desc := map[string]any{"case": caseID, "configured_rate": p, "two_engines": twoEngines, "merger_rate": mergerRate, "distinct_tokens_ingested": n, "flushes": blocksWanted, "merged": merged, "partitions_per_flush": parts, "fields_carrying_each_text": copies}
	probeOne := func(level, kind string, f *bloom.BloomFilter, entries int, rate float64) bool {
		if f == nil {
			rc.Violate(i, "filter-absent", "", level+" "+kind+" filter absent", desc)
			return false
		}
		N := uint64(math.Max(2e5, 200/rate))
		if N > 2e7 {
			N = 2e7
		}
		hits := probeFilter(f, N, kind)
		obs := float64(hits) / float64(N)
		rc.Res.Eval(1)
		rc.Res.Count("filters_probed", 1)
		rc.Res.Count("probes", int64(N))
		if entries >= 50 {
			rc.Res.Count("filters_n_ge_50", 1)
			rc.Res.Nontrivial(entries, rate, level, kind)
		} else {
			rc.Res.Count("filters_n_lt_50", 1)
		}
		if 3*rate >= 1 {
			return true
		}
		bound := 3*rate + 6*math.Sqrt(3*rate*(1-3*rate)/float64(N))
		if entries >= 50 {
			rc.Res.Max("max.observed_over_configured_x1000_n_ge_50", int64(1000*obs/rate))
		}
		if obs > bound {
			sig := ""
			if entries < 50 {
				sig = "small-filter-n-lt-50"
			}
			rc.Violate(i, "false-positive-rate-exceeded", sig, fmt.Sprintf("%s %s filter holding %d distinct entries, built for rate %g: %d of %d never-inserted strings test positive (%.3g = %.1f x the configured rate; bound %.3g); m=%d bits k=%d", level, kind, entries, rate, hits, N, obs, obs/rate, bound, f.Cap(), f.K()),
				map[string]any{"run": desc, "level": level, "kind": kind, "entries": entries, "observed": obs, "bound": bound, "m_bits": f.Cap(), "k": f.K()})
			return sig != ""
		}
		return true
	}
	for _, f := range inv {
		raw, _ := w.FileBytes(f.Ptr)
		md, _, err := bs.ReadFileMetadata(bytes.NewReader(raw))
		if err != nil {
			rc.Violate(i, "ReadFileMetadata-failed", "", err.Error(), desc)
			return
		}
		fileEnt := refsem.NewEntries()
		for _, b := range f.Blocks {
			ent := refsem.NewEntries()
			for _, vid := range b.VIDs {
				ent.AddDoc(w.Rows[vid].Doc, tok.Ref)
			}
			fileEnt.Union(ent)
			bf, err := bs.ReadDataBlockBloomFilters(bytes.NewReader(raw), b.Meta)
			if err != nil {
				rc.Violate(i, "ReadDataBlockBloomFilters-failed", "", err.Error(), desc)
				return
			}
			rate := b.Meta.BloomFalsePositiveRate
			if rate != p && !(twoEngines && merged && rate == mergerRate) {
				rc.Violate(i, "block-rate-not-configured-rate", "", fmt.Sprintf("block metadata says its filters were built at %g; the engines that wrote or merged it are configured for %g / %g", rate, p, mergerRate), desc)
				return
			}
			if rate != p {
				rc.Res.Count("blocks_at_merger_rate", 1)
			} else if twoEngines && merged {
				rc.Res.Count("blocks_kept_at_writer_rate", 1)
			}
			if !probeOne("block", "field", bf.FieldBloomFilter, len(ent.Fields), rate) || !probeOne("block", "token", bf.TokenBloomFilter, len(ent.Tokens), rate) || !probeOne("block", "fieldtoken", bf.FieldTokenBloomFilter, len(ent.Pairs), rate) {
				return
			}
		}
		fileRate := md.BloomFalsePositiveRate
		if fileRate != p && !(twoEngines && merged && fileRate == mergerRate) {
			rc.Violate(i, "file-rate-not-configured-rate", "", fmt.Sprintf("file metadata says its filters were built at %g; configured %g / %g", fileRate, p, mergerRate), desc)
			return
		}
		if !probeOne("file", "field", md.BloomFilters.FieldBloomFilter, len(fileEnt.Fields), fileRate) || !probeOne("file", "token", md.BloomFilters.TokenBloomFilter, len(fileEnt.Tokens), fileRate) || !probeOne("file", "fieldtoken", md.BloomFilters.FieldTokenBloomFilter, len(fileEnt.Pairs), fileRate) {
			return
		}
	}
	if i < 4 {
		desc["files"] = len(inv)
		rc.Res.Sample(desc)
	}
}
