package mon

import (
	"bytes"
	"context"
	"fmt"
	"math"
	"strings"
	"time"

	"github.com/bits-and-blooms/bloom/v3"
	bs "github.com/danthegoodman1/bloomsearch"

	"verifharness/core"
	"verifharness/gen"
	"verifharness/refsem"
	"verifharness/world"
)

func init() {
	Register(&Check{
		Spec: core.Spec{ID: "C26", Level: "exploration",
			Rule:        "case = one engine with BloomFalsePositiveRate p in {0.3, 0.1, 0.01, 0.001, 1e-4} ingesting rows built to carry a chosen number of distinct tokens (1 .. 50 000 quick, .. 300 000 thorough, plus volume cases of 600 000 - 1 500 000 distinct tokens in one file (one in the quick tier, one in 40 thorough), flushed at once or merged from three files; few distinct field names with many tokens, the realistic skew), flushed as one or several blocks and in some cases merged. Every filter (field, token, field:token; block level and file level) is read back through ReadFileMetadata / ReadDataBlockBloomFilters, its distinct entry count n measured with the reference walker, and probed with N = max(2e5, 200/p) (cap 2e7) strings that were never inserted (disjoint alphabet). Oracle: observed rate <= 3p + 6*sqrt(3p(1-3p)/N) (3 = the maintainers' documented tolerance, 6 sigma = probe sampling error). evaluations = filters probed; non-trivial = filter with n >= 50; distinct = distinct (n, p, level, kind)",
			Assumptions: []string{"tolerance 3x the configured rate as pinned by TestFalsePositiveRateWithinBudget", "probe strings start with a byte (0x01) no generator emits"},
			Floors:      map[string]int64{"filters_probed": 60, "filters_n_ge_50": 20, "probes": 5000000, "volume_cases": 1}},
		Cases: func(t string) int { return nQueries(t, 24, 320) },
		Run:   runC26,
	})
}

func probeFilter(f *bloom.BloomFilter, n uint64, salt string) (hits uint64) {
	buf := make([]byte, 0, 64)
	for k := uint64(0); k < n; k++ {
		buf = append(buf[:0], 1)
		buf = append(buf, salt...)
		buf = appendUint(buf, k)
		if f.Test(buf) {
			hits++
		}
	}
	return hits
}

func appendUint(b []byte, v uint64) []byte {
	if v == 0 {
		return append(b, '0')
	}
	var tmp [20]byte
	i := len(tmp)
	for v > 0 {
		i--
		tmp[i] = byte('0' + v%10)
		v /= 10
	}
	return append(b, tmp[i:]...)
}

func runC26(rc *RunCtx, i int) {
	r := rc.CaseRand(i)
	p := core.Pick(r, []float64{0.3, 0.1, 0.01, 0.001, 1e-4})
	volumes := []int{1, 3, 10, 40, 60, 200, 1000, 5000, 20000, 50000}
	if rc.Tier == "thorough" {
		volumes = append(volumes, 100000, 300000)
	}
	n := core.Pick(r, volumes)
	// volume cases: one file holding several hundred thousand to over a million distinct entries
	// (a long merge history or one very large flush), where a filter's size reaches megabytes
	volumeCase := (rc.Tier != "thorough" && i == 5) || (rc.Tier == "thorough" && i%40 == 5)
	if volumeCase {
		p = core.Pick(r, []float64{0.001, 1e-4})
		n = core.Pick(r, []int{600000, 900000})
		if rc.Tier == "thorough" {
			n = core.Pick(r, []int{600000, 900000, 1500000})
		}
		rc.Res.Count("volume_cases", 1)
	}
	caseID := fmt.Sprintf("c26_%d_%d", rc.Seed, i)
	v := gen.NewVocab(r.Split("vocab"))
	tok := gen.Tokenizers[0]
	w := world.New(caseID, world.StoreMem, v, tok)
	defer w.Close()
	spec := gen.PickEngineSpec(r.Split("spec"), v, tok)
	spec.FPR = p
	spec.Part = gen.PartFunc{Name: "none"}
	spec.Partition = "none"
	// a third of the cases flush several partitions at once, each holding the same number of
	// distinct tokens (blocks whose filters share one shape; the file filter must still be
	// sized for the union)
	parts := 1
	if i%3 == 2 {
		parts = core.Pick(r, []int{2, 4, 8})
		spec.Part = gen.PartFunc{Name: fmt.Sprintf("byKey:p(%d)", parts), Fn: func(row map[string]any) string { s, _ := row["p"].(string); return s }}
		spec.Partition = spec.Part.Name
	}
	spec.MinMax = nil
	spec.Compression = "snappy"
	blocksWanted := core.Pick(r, []int{1, 1, 2, 4})
	if volumeCase {
		blocksWanted = core.Pick(r, []int{1, 3})
	}
	spec.BufRows, spec.BufBytes, spec.RGRows, spec.RGBytes = 1<<30, 1<<30, 1<<30, 1<<30
	spec.MaxFileSize, spec.MergeFiles = 10<<30, 10
	if _, err := w.AddEngine(spec); err != nil {
		rc.Violate(i, "scenario-failed", "", err.Error(), nil)
		return
	}
	// rows: up to 50 tokens per row, n distinct tokens in total, split over blocksWanted flushes
	perRow := 50
	tokenID := 0
	vid := 0
	for b := 0; b < blocksWanted; b++ {
		share := n / blocksWanted
		if b == blocksWanted-1 {
			share = n - share*(blocksWanted-1)
		}
		if share == 0 {
			continue
		}
		if parts > 1 {
			// equal shares: whole rows of perRow tokens, a multiple of the partition count
			rowsN := share / perRow / parts * parts
			if rowsN < parts {
				rowsN = parts
			}
			share = rowsN * perRow
		}
		var recs []*world.RowRec
		for share > 0 {
			k := perRow
			if k > share {
				k = share
			}
			var sb strings.Builder
			for j := 0; j < k; j++ {
				fmt.Fprintf(&sb, "t%07d ", tokenID)
				tokenID++
			}
			share -= k
			vid++
			row := map[string]any{"_vid": fmt.Sprintf("v%s_%d", caseID, vid), "t": sb.String()}
			if parts > 1 {
				row["p"] = fmt.Sprintf("part%d", vid%parts)
			}
			rec, err := w.Register(row, 0)
			if err != nil {
				rc.Violate(i, "scenario-failed", "", err.Error(), nil)
				return
			}
			recs = append(recs, rec)
		}
		if err := w.IngestSync(0, [][]*world.RowRec{recs}); err != nil {
			rc.Violate(i, "scenario-failed", "", err.Error(), nil)
			return
		}
	}
	merged := false
	if blocksWanted > 1 && (r.Bool() || volumeCase) {
		ctx, cancel := context.WithTimeout(context.Background(), 120*time.Second)
		_, err := w.Eng[0].Merge(ctx)
		cancel()
		if err != nil {
			rc.Violate(i, "scenario-failed", "", "merge: "+err.Error(), nil)
			return
		}
		merged = true
	}
	inv, err := w.Inventory()
	if err != nil {
		rc.Violate(i, "scenario-failed", "", err.Error(), nil)
		return
	}
	desc := map[string]any{"case": caseID, "configured_rate": p, "distinct_tokens_ingested": n, "flushes": blocksWanted, "merged": merged, "partitions_per_flush": parts}
	probeOne := func(level, kind string, f *bloom.BloomFilter, entries int, rate float64) bool {
		if f == nil {
			rc.Violate(i, "filter-absent", "", level+" "+kind+" filter absent", desc)
			return false
		}
		N := uint64(math.Max(2e5, 200/rate))
		if N > 2e7 {
			N = 2e7
		}
		hits := probeFilter(f, N, kind)
		obs := float64(hits) / float64(N)
		rc.Res.Eval(1)
		rc.Res.Count("filters_probed", 1)
		rc.Res.Count("probes", int64(N))
		if entries >= 50 {
			rc.Res.Count("filters_n_ge_50", 1)
			rc.Res.Nontrivial(entries, rate, level, kind)
		} else {
			rc.Res.Count("filters_n_lt_50", 1)
		}
		if 3*rate >= 1 {
			return true
		}
		bound := 3*rate + 6*math.Sqrt(3*rate*(1-3*rate)/float64(N))
		if entries >= 50 {
			rc.Res.Max("max.observed_over_configured_x1000_n_ge_50", int64(1000*obs/rate))
		}
		if obs > bound {
			sig := ""
			if entries < 50 {
				sig = "small-filter-n-lt-50"
			}
			rc.Violate(i, "false-positive-rate-exceeded", sig, fmt.Sprintf("%s %s filter holding %d distinct entries, built for rate %g: %d of %d never-inserted strings test positive (%.3g = %.1f x the configured rate; bound %.3g); m=%d bits k=%d", level, kind, entries, rate, hits, N, obs, obs/rate, bound, f.Cap(), f.K()),
				map[string]any{"run": desc, "level": level, "kind": kind, "entries": entries, "observed": obs, "bound": bound, "m_bits": f.Cap(), "k": f.K()})
			return sig != ""
		}
		return true
	}
	for _, f := range inv {
		raw, _ := w.FileBytes(f.Ptr)
		md, _, err := bs.ReadFileMetadata(bytes.NewReader(raw))
		if err != nil {
			rc.Violate(i, "ReadFileMetadata-failed", "", err.Error(), desc)
			return
		}
		fileEnt := refsem.NewEntries()
		for _, b := range f.Blocks {
			ent := refsem.NewEntries()
			for _, vid := range b.VIDs {
				ent.AddDoc(w.Rows[vid].Doc, tok.Ref)
			}
			fileEnt.Union(ent)
			bf, err := bs.ReadDataBlockBloomFilters(bytes.NewReader(raw), b.Meta)
			if err != nil {
				rc.Violate(i, "ReadDataBlockBloomFilters-failed", "", err.Error(), desc)
				return
			}
			rate := b.Meta.BloomFalsePositiveRate
			if rate != p {
				rc.Violate(i, "block-rate-not-configured-rate", "", fmt.Sprintf("block metadata says its filters were built at %g, configured %g", rate, p), desc)
				return
			}
			if !probeOne("block", "field", bf.FieldBloomFilter, len(ent.Fields), p) || !probeOne("block", "token", bf.TokenBloomFilter, len(ent.Tokens), p) || !probeOne("block", "fieldtoken", bf.FieldTokenBloomFilter, len(ent.Pairs), p) {
				return
			}
		}
		if !probeOne("file", "field", md.BloomFilters.FieldBloomFilter, len(fileEnt.Fields), p) || !probeOne("file", "token", md.BloomFilters.TokenBloomFilter, len(fileEnt.Tokens), p) || !probeOne("file", "fieldtoken", md.BloomFilters.FieldTokenBloomFilter, len(fileEnt.Pairs), p) {
			return
		}
	}
	if i < 4 {
		desc["files"] = len(inv)
		rc.Res.Sample(desc)
	}
}
