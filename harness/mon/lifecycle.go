package mon

import (
	"context"
	"errors"
	"fmt"
	"strings"
	"sync"
	"sync/atomic"
	"time"

	bs "github.com/danthegoodman1/bloomsearch"

	"verifharness/core"
	"verifharness/gen"
	"verifharness/stores"
	"verifharness/world"
)

// ---------- ledger of ingest operations ----------

type opRec struct {
	ID       int      `json:"id"`
	Kind     string   `json:"kind"` // ingest, flush
	Batch    string   `json:"batch,omitempty"`
	Chan     string   `json:"chan,omitempty"` // buffered, unbuffered, nil
	Rows     int      `json:"rows"`
	CallTick int64    `json:"call"`
	RetTick  int64    `json:"ret"`
	Err      string   `json:"err,omitempty"`
	Answers  []string `json:"answers,omitempty"`
	AnsTicks []int64  `json:"answer_ticks,omitempty"`

	recs     []*world.RowRec
	ch       chan error
	accepted bool
	returned atomic.Bool
	mu       sync.Mutex
	nAns     atomic.Int32
}

func (o *opRec) addAnswer(err error, tick int64) {
	o.mu.Lock()
	if err == nil {
		o.Answers = append(o.Answers, "nil")
	} else {
		o.Answers = append(o.Answers, err.Error())
	}
	o.AnsTicks = append(o.AnsTicks, tick)
	o.mu.Unlock()
	o.nAns.Add(1)
}

// collect drains whatever sits in a buffered channel (non-blocking).
func (o *opRec) collect(clock *stores.Clock) {
	if o.ch == nil || o.Chan != "buffered" {
		return
	}
	for {
		select {
		case err := <-o.ch:
			o.addAnswer(err, clock.Now())
		default:
			return
		}
	}
}

type ledger struct {
	shared        chan error
	sharedAnswers atomic.Int64

	mu    sync.Mutex
	ops   []*opRec
	clock *stores.Clock
	wg    sync.WaitGroup // receiver goroutines
	stop  chan struct{}
}

func newLedger(clock *stores.Clock) *ledger {
	return &ledger{clock: clock, stop: make(chan struct{})}
}

func (l *ledger) newOp(kind string) *opRec {
	l.mu.Lock()
	defer l.mu.Unlock()
	o := &opRec{ID: len(l.ops), Kind: kind}
	l.ops = append(l.ops, o)
	return o
}

// makeChan creates the done channel of the requested kind; unbuffered
// channels get a receiver goroutine that is parked before the call and keeps
// receiving until the ledger is closed.
func (l *ledger) makeChan(o *opRec, kind string) {
	o.Chan = kind
	switch kind {
	case "buffered":
		o.ch = make(chan error, 2)
	case "unbuffered":
		o.ch = make(chan error)
		ready := make(chan struct{})
		l.wg.Add(1)
		go func() {
			defer l.wg.Done()
			close(ready)
			for {
				select {
				case err := <-o.ch:
					o.addAnswer(err, l.clock.Tick())
				case <-l.stop:
					return
				}
			}
		}()
		<-ready
		time.Sleep(50 * time.Microsecond) // let the receiver park
	case "unbuffered-late":
		// the caller keeps receiving, but only starts a little after the call returned: a
		// blocking send must wait for it
		o.ch = make(chan error)
		l.wg.Add(1)
		go func() {
			defer l.wg.Done()
			for !o.returned.Load() {
				time.Sleep(100 * time.Microsecond)
			}
			time.Sleep(time.Duration(1+o.ID%25) * time.Millisecond)
			for {
				select {
				case err := <-o.ch:
					o.addAnswer(err, l.clock.Tick())
				case <-l.stop:
					return
				}
			}
		}()
	case "shared":
		// one done channel handed to many batches (capacity 1 or 2), drained by one receiver that
		// keeps receiving: every accepted batch that used it must produce one value on it
		o.ch = l.shared
	case "nil":
		o.ch = nil
	}
}

// startShared creates the shared done channel and its receiver.
func (l *ledger) startShared(capacity int) {
	l.shared = make(chan error, capacity)
	l.wg.Add(1)
	go func() {
		defer l.wg.Done()
		for {
			select {
			case <-l.shared:
				l.sharedAnswers.Add(1)
				time.Sleep(200 * time.Microsecond) // the caller is between receives for a moment
			case <-l.stop:
				return
			}
		}
	}()
}

func (l *ledger) close() {
	close(l.stop)
	l.wg.Wait()
}

// opView is a race-free copy of an opRec for witnesses.
type opView struct {
	ID       int      `json:"id"`
	Kind     string   `json:"kind"`
	Batch    string   `json:"batch,omitempty"`
	Chan     string   `json:"chan,omitempty"`
	Rows     int      `json:"rows"`
	CallTick int64    `json:"call"`
	RetTick  int64    `json:"ret"`
	Returned bool     `json:"returned"`
	Err      string   `json:"err,omitempty"`
	Answers  []string `json:"answers,omitempty"`
	AnsTicks []int64  `json:"answer_ticks,omitempty"`
}

func viewOps(ops []*opRec) []opView {
	out := make([]opView, 0, len(ops))
	for _, o := range ops {
		o.mu.Lock()
		out = append(out, opView{ID: o.ID, Kind: o.Kind, Batch: o.Batch, Chan: o.Chan, Rows: o.Rows, CallTick: o.CallTick, RetTick: o.RetTick, Returned: o.returned.Load(), Err: o.Err,
			Answers: append([]string(nil), o.Answers...), AnsTicks: append([]int64(nil), o.AnsTicks...)})
		o.mu.Unlock()
	}
	return out
}

func (l *ledger) snapshot() []*opRec {
	l.mu.Lock()
	defer l.mu.Unlock()
	return append([]*opRec(nil), l.ops...)
}

// ---------- batches ----------

func makeBatch(r *core.Rand, w *world.World, kind string) ([]map[string]any, []*world.RowRec) {
	switch kind {
	case "empty":
		return []map[string]any{}, nil
	case "nilrows":
		return nil, nil
	case "unmarshalable":
		// Mostly small batches with one bad row; one in four is large (so that a
		// per-partition or chunked code path is taken) and carries several bad
		// rows, which under a partition function land in different partitions.
		n := r.Range(1, 4)
		nbad := 1
		if r.Intn(4) == 0 {
			n = r.Range(64, 160)
			nbad = r.Range(2, 6)
		}
		rows := make([]map[string]any, 0, n)
		var recs []*world.RowRec
		bad := map[int]bool{}
		for len(bad) < nbad {
			bad[r.Intn(n)] = true
		}
		for k := 0; k < n; k++ {
			rec := w.NewRow(r, 0)
			if bad[k] {
				rec.Row["bad"] = make(chan int) // json: unsupported type
			}
			rows = append(rows, rec.Row)
			recs = append(recs, rec)
		}
		return rows, recs
	default:
		n := r.Range(1, 8)
		rows := make([]map[string]any, 0, n)
		var recs []*world.RowRec
		for k := 0; k < n; k++ {
			rec := w.NewRow(r, 0)
			rows = append(rows, rec.Row)
			recs = append(recs, rec)
		}
		return rows, recs
	}
}

// workerFrames reports whether ingest/flush worker goroutines are still alive.
func workerFramesAlive() (bool, string) {
	d := allStacks()
	gs := engineStacks(d, ").ingestWorker", ").flushWorker")
	return len(gs) > 0, strings.Join(gs, "\n")
}

func init() {
	Register(&Check{
		Spec: core.Spec{ID: "C05", Level: "exploration",
			Rule:        "case = one engine over instrumented in-memory stores with a PRNG fault plan (flush-path calls fail with p in {0, 0.05, 0.25}) and PRNG delays at store calls and tagged schedule points; 2-24 producer goroutines issue IngestRows (normal, empty, nil, unmarshalable, multi-partition batches; buffered, actively-drained unbuffered and nil done channels) and Flush while Start is called early, late, twice or never and Stop races with them; queries and merges run alongside; under -race. At quiescence after Stop every accepted batch must have exactly one answer and every Flush call must have returned. non-trivial = history in which Stop overlapped at least one in-flight producer call or a store call failed; distinct = distinct (lifecycle shape, producer count, schedule signature of hook/store events)",
			Assumptions: []string{"'caller keeps receiving' = a receiver goroutine parked on the channel before IngestRows is called", "IngestRows callers use a context with a timeout on a never-started engine (nothing consumes the ingest buffer there)", "bounded progress decided by the stuck detector, never by a latency"},
			Floors:      map[string]int64{"histories": 100, "batches_accepted": 1000, "answers_observed": 400, "histories_stop_overlapped": 20}},
		Cases:       func(t string) int { return nQueries(t, 160, 6000) },
		Run:         runC05,
		RaceMatters: true,
	})
}

// holdCtx is a caller-side context whose Done() may take its time (it runs a harness hold
// first). Everything else is the parent's.
type holdCtx struct {
	context.Context
	hold func()
}

func (c *holdCtx) Done() <-chan struct{} {
	c.hold()
	return c.Context.Done()
}

type lifecycleEnv struct {
	w     *world.World
	log   *stores.Log
	clock *stores.Clock
	led   *ledger
	e     *bs.BloomSearchEngine
	spec  gen.EngineSpec
	pm    *pointMon
}

func newLifecycleEnv(rc *RunCtx, i int, r *core.Rand, tune func(*gen.EngineSpec)) (*lifecycleEnv, error) {
	caseID := fmt.Sprintf("%s%d_%d", strings.ToLower(rc.ID), rc.Seed, i)
	v := gen.NewVocab(r.Split("vocab"))
	tok := gen.Tokenizers[0]
	w := world.New(caseID, world.StoreMem, v, tok)
	clock := &stores.Clock{}
	log := stores.NewLog(clock)
	w.Instrument(log)
	spec := gen.PickEngineSpec(r.Split("spec"), v, tok)
	spec.Compression = core.Pick(r, []string{"none", "snappy"})
	spec.IngestBuf = core.Pick(r, []int{1, 2, 4, 16, 100})
	spec.BufRows = core.Pick(r, []int{1, 3, 10, 40, 1000})
	spec.BufBytes = core.Pick(r, []int{200, 2000, 1 << 20})
	spec.RGRows = core.Pick(r, []int{2, 10, 1000})
	spec.RGBytes = core.Pick(r, []int{300, 5000, 10 << 20})
	if tune != nil {
		tune(&spec)
	}
	// the engine is created without Start: the lifecycle shape decides
	cfg := spec.Config()
	e, err := bs.NewBloomSearchEngine(cfg, w.IMeta, w.IData)
	if err != nil {
		return nil, err
	}
	w.Specs = append(w.Specs, spec)
	w.Eng = append(w.Eng, e)
	return &lifecycleEnv{w: w, log: log, clock: clock, led: newLedger(clock), e: e, spec: spec}, nil
}

func runC05(rc *RunCtx, i int) {
	r := rc.CaseRand(i)
	shape := core.Pick(r, []string{"start-early", "start-early", "start-late", "start-twice", "start-never", "start-early"})
	maxBufTime := core.Pick(r, []time.Duration{30 * time.Millisecond, 150 * time.Millisecond, time.Hour})
	env, err := newLifecycleEnv(rc, i, r, nil)
	if err != nil {
		rc.Violate(i, "scenario-failed", "", err.Error(), nil)
		return
	}
	// MaxBufferedTime needs a fresh engine (config is fixed at construction)
	cfg := env.spec.Config()
	cfg.MaxBufferedTime = maxBufTime
	env.e, err = bs.NewBloomSearchEngine(cfg, env.w.IMeta, env.w.IData)
	if err != nil {
		rc.Violate(i, "scenario-failed", "", err.Error(), nil)
		return
	}
	env.w.Eng[0] = env.e
	e := env.e
	led := env.led
	pf := core.Pick(r, []float64{0, 0, 0.05, 0.25})
	pr := r.Split("plan")
	var pmu sync.Mutex
	var injected atomic.Int64
	env.log.Plan = &stores.Plan{Decide: func(c *stores.Call) stores.Action {
		pmu.Lock()
		defer pmu.Unlock()
		var a stores.Action
		switch c.Kind {
		case "CreateFile", "Write", "Close", "Abort", "Update", "TombstoneFile":
			if pf > 0 && pr.Chance(pf) {
				a.Fail = true
				a.PostEffect = c.Kind != "Update" && c.Kind != "CreateFile" && pr.Bool()
				injected.Add(1)
			}
		}
		switch pr.Intn(8) {
		case 0:
			a.Delay = time.Duration(pr.Range(20, 600)) * time.Microsecond
		case 1:
			a.Delay = -1
		}
		return a
	}}
	pm := installPoints(r.Split("points"), true, 400)
	defer pm.uninstall(rc.Res)
	var stopFlagged atomic.Int64
	pm.on("stop.flagged", func() { stopFlagged.Store(env.clock.Tick()) })
	// In a third of the histories the first callers that reach the point between the stopped
	// check and the channel send after Stop was requested are held there until Stop returned
	// (or 120 ms): exactly the window the state lock exists to close. Correct code keeps Stop
	// out (the hold simply expires); code that lets Stop through strands the request.
	var stopRequested, stopReturned atomic.Bool
	var held atomic.Int32
	hold := func() {
		if i%3 != 0 || !stopRequested.Load() || held.Add(1) > 4 {
			return
		}
		for t := 0; t < 240 && !stopReturned.Load(); t++ {
			time.Sleep(500 * time.Microsecond)
		}
		rc.Res.Count("callers_held_across_stop", 1)
	}
	pm.on("ingest.beforeSend", hold)
	pm.on("flush.beforeSend", hold)
	// The same hold at the public boundary, needing no hook: the caller's context is consulted
	// (Done) when IngestRows/Flush set up their wait, i.e. after the stopped check and before the
	// send lands. A context whose Done() is slow is a legal caller-side implementation.
	holdingCtx := func(parent context.Context) context.Context { return &holdCtx{Context: parent, hold: hold} }

	led.startShared(core.Pick(r, []int{1, 1, 2}))
	desc := map[string]any{"case": env.w.Case, "shape": shape, "engine": env.spec, "fault_p": pf, "max_buffered_time": maxBufTime.String()}
	producers := r.Range(2, 24)
	desc["producers"] = producers

	if shape == "start-early" || shape == "start-twice" {
		e.Start()
	}
	if shape == "start-twice" {
		e.Start()
	}
	var wg sync.WaitGroup
	var opsDone atomic.Int64
	totalOps := 0
	type plan struct {
		kind, batch, ch string
	}
	prodPlans := make([][]plan, producers)
	gr := r.Split("gen")
	for p := range prodPlans {
		n := gr.Range(1, 4)
		for k := 0; k < n; k++ {
			pl := plan{kind: "ingest"}
			if gr.Chance(0.15) {
				pl.kind = "flush"
			}
			pl.batch = core.Pick(gr, []string{"normal", "normal", "normal", "normal", "empty", "nilrows", "unmarshalable"})
			pl.ch = core.Pick(gr, []string{"buffered", "buffered", "unbuffered", "unbuffered-late", "nil", "shared"})
			if i%4 == 2 && gr.Chance(0.7) {
				pl.ch = "shared" // histories in which most batches report to one channel
			}
			prodPlans[p] = append(prodPlans[p], pl)
			totalOps++
		}
	}
	lateStartAfter := int64(gr.Range(0, totalOps))
	stopAfter := int64(gr.Range(0, totalOps))
	var rowMu sync.Mutex
	rowRand := r.Split("rows")
	var flushOps []*opRec
	var fmu sync.Mutex
	for p := 0; p < producers; p++ {
		wg.Add(1)
		go func(p int) {
			defer wg.Done()
			for _, pl := range prodPlans[p] {
				if pl.kind == "flush" {
					o := led.newOp("flush")
					fmu.Lock()
					flushOps = append(flushOps, o)
					fmu.Unlock()
					o.CallTick = env.clock.Tick()
					// Flush waits for its ack without a context once accepted,
					// so it runs in its own goroutine and is checked for return
					go func() {
						ctx, cancel := context.WithTimeout(context.Background(), 2*time.Second)
						err := e.Flush(holdingCtx(ctx))
						cancel()
						o.mu.Lock()
						o.RetTick = env.clock.Tick()
						if err != nil {
							o.Err = err.Error()
						}
						o.mu.Unlock()
						o.returned.Store(true)
					}()
					opsDone.Add(1)
					continue
				}
				rowMu.Lock()
				rows, recs := makeBatch(rowRand, env.w, pl.batch)
				rowMu.Unlock()
				o := led.newOp("ingest")
				o.Batch, o.Rows, o.recs = pl.batch, len(rows), recs
				led.makeChan(o, pl.ch)
				ctx, cancel := context.WithTimeout(context.Background(), 1500*time.Millisecond)
				o.CallTick = env.clock.Tick()
				err := e.IngestRows(holdingCtx(ctx), rows, o.ch)
				o.RetTick = env.clock.Tick()
				cancel()
				if err != nil {
					o.Err = err.Error()
				} else {
					o.accepted = true
				}
				o.returned.Store(true)
				opsDone.Add(1)
			}
		}(p)
	}
	// background readers
	bgStop := make(chan struct{})
	var bg sync.WaitGroup
	bg.Add(1)
	go func() {
		defer bg.Done()
		for k := 0; ; k++ {
			select {
			case <-bgStop:
				return
			default:
			}
			if k%4 == 3 {
				ctx, cancel := context.WithTimeout(context.Background(), 5*time.Second)
				e.Merge(ctx)
				cancel()
			} else {
				ctx, cancel := context.WithTimeout(context.Background(), 5*time.Second)
				world.RunQuery(ctx, e, &bs.Query{})
				cancel()
			}
			time.Sleep(time.Millisecond)
		}
	}()
	// late Start
	if shape == "start-late" {
		for opsDone.Load() < lateStartAfter {
			time.Sleep(200 * time.Microsecond)
		}
		e.Start()
	}
	for opsDone.Load() < stopAfter {
		time.Sleep(200 * time.Microsecond)
	}
	overlapped := opsDone.Load() < int64(totalOps)
	stopCall := env.clock.Tick()
	var stopErr error
	stopDone := make(chan struct{})
	// a quarter of the histories stop the engine from two goroutines at once, and every history
	// calls Stop (and Start) once more after it returned: all of them must return nil and change
	// nothing (no second drain, no answer delivered twice, no panic on an already closed channel)
	twoStops := i%4 == 1
	var stopErr2, stopErr3 error
	go func() {
		stopRequested.Store(true)
		time.Sleep(200 * time.Microsecond) // let callers reach the hold points first
		var swg sync.WaitGroup
		if twoStops {
			swg.Add(1)
			go func() {
				defer swg.Done()
				stopErr2 = e.Stop(context.Background())
			}()
			rc.Res.Count("histories_with_concurrent_stops", 1)
		}
		stopErr = e.Stop(context.Background())
		swg.Wait()
		stopReturned.Store(true)
		e.Start() // no-op on a stopped engine
		c3, cancel3 := context.WithTimeout(context.Background(), core.Patience)
		stopErr3 = e.Stop(c3)
		cancel3()
		close(stopDone)
	}()
	verdict := awaitProgress(stopDone)
	stopRet := env.clock.Tick()
	close(bgStop)
	if verdict != "" {
		if strings.HasPrefix(verdict, "stuck:") {
			desc["ops"] = viewOps(led.snapshot())
			rc.Violate(i, "stop-stuck", "", "Stop(context.Background()) did not return although stores are responsive and every done channel is buffered or drained", map[string]any{"history": desc, "dump": strings.TrimPrefix(verdict, "stuck:")})
		} else {
			rc.Res.Inconc("C05 stop watchdog")
		}
		return
	}
	wg.Wait()
	bg.Wait()
	rc.Res.Eval(1)
	rc.Res.Count("histories", 1)
	rc.Res.Count("shape."+shape, 1)
	if overlapped {
		rc.Res.Count("histories_stop_overlapped", 1)
	}
	if stopErr != nil {
		rc.Violate(i, "graceful-stop-failed", "", "Stop(context.Background()) returned "+stopErr.Error(), desc)
		return
	}
	if stopErr2 != nil || stopErr3 != nil {
		rc.Violate(i, "repeated-stop-failed", "", fmt.Sprintf("a concurrent Stop returned %v and a Stop after Stop returned %v (the first returned nil)", stopErr2, stopErr3), desc)
		return
	}
	if err := e.IngestRows(context.Background(), []map[string]any{{"_vid": "after-stop"}}, nil); !errors.Is(err, bs.ErrEngineStopped) {
		rc.Violate(i, "accepted-after-stop", "", fmt.Sprintf("IngestRows after Stop (and a Start after Stop) returned %v instead of ErrEngineStopped", err), desc)
		return
	}
	// settle: receivers of unbuffered channels record right after the send completes
	ops := led.snapshot()
	settle := func() (bad *opRec, why string) {
		for _, o := range ops {
			o.collect(env.clock)
			if o.Kind == "flush" {
				if !o.returned.Load() {
					return o, "Flush call has not returned after Stop returned nil"
				}
				continue
			}
			if o.Chan == "shared" {
				continue // counted on the channel, below
			}
			n := int(o.nAns.Load())
			if o.accepted && o.ch != nil && n != 1 {
				return o, fmt.Sprintf("accepted batch has %d answers after Stop returned nil", n)
			}
			if !o.accepted && n != 0 {
				return o, fmt.Sprintf("refused batch (%s) has %d answers", o.Err, n)
			}
		}
		return nil, ""
	}
	var bad *opRec
	var why string
	for t := 0; t < 60; t++ {
		if bad, why = settle(); bad == nil {
			break
		}
		time.Sleep(50 * time.Millisecond)
	}
	// one more look a little later: a second answer must never arrive
	time.Sleep(20 * time.Millisecond)
	if bad == nil {
		bad, why = settle()
	}
	sharedAccepted := int64(0)
	for _, o := range ops {
		if o.Chan == "shared" && o.accepted {
			sharedAccepted++
		}
	}
	for t := 0; t < 120 && led.sharedAnswers.Load() != sharedAccepted; t++ {
		time.Sleep(25 * time.Millisecond)
	}
	time.Sleep(10 * time.Millisecond)
	sharedGot := led.sharedAnswers.Load()
	rc.Res.Count("batches_on_shared_channel", sharedAccepted)
	led.close()
	if bad == nil && sharedGot != sharedAccepted {
		desc["ops"] = viewOps(ops)
		rc.Violate(i, "batch-not-answered-exactly-once", "", fmt.Sprintf("%d accepted batches were given the same done channel (capacity %d, a receiver kept receiving); it received %d values after Stop returned nil", sharedAccepted, cap(led.shared), sharedGot), desc)
		return
	}
	accepted, answers := 0, 0
	for _, o := range ops {
		if o.accepted {
			accepted++
		}
		answers += int(o.nAns.Load())
		if o.Kind == "ingest" && o.Err != "" && !strings.Contains(o.Err, bs.ErrEngineStopped.Error()) && !strings.Contains(o.Err, "context deadline exceeded") {
			rc.Violate(i, "unexpected-ingest-error", "", "IngestRows returned "+o.Err, desc)
			return
		}
	}
	rc.Res.Count("batches_accepted", int64(accepted))
	rc.Res.Count("answers_observed", int64(answers))
	rc.Res.Count("faults_injected", injected.Load())
	sig := fmt.Sprintf("%s|%d|%d|%d", shape, producers, stopCall, stopRet-stopCall)
	if overlapped || injected.Load() > 0 {
		rc.Res.Nontrivial(sig, env.clock.Now())
	}
	if bad != nil {
		sigK := ""
		if shape == "start-never" {
			sigK = "never-started-engine"
		}
		desc["ops"] = viewOps(ops)
		desc["stop"] = []int64{stopCall, stopFlagged.Load(), stopRet}
		rc.Violate(i, "batch-not-answered-exactly-once", sigK, fmt.Sprintf("op %d (%s/%s/%s): %s", bad.ID, bad.Kind, bad.Batch, bad.Chan, why), desc)
		return
	}
	if alive, dump := workerFramesAlive(); alive {
		// Stop returned nil: both workers must have exited (poll: a goroutine may still be returning)
		for t := 0; t < 40 && alive; t++ {
			time.Sleep(25 * time.Millisecond)
			alive, dump = workerFramesAlive()
		}
		if alive {
			rc.Violate(i, "worker-alive-after-stop", "", "Stop returned nil but an ingest/flush worker goroutine is still running", map[string]any{"history": desc, "dump": core.Trunc(dump, 4000)})
			return
		}
	}
	if i < 3 {
		rc.Res.Sample(map[string]any{"history": desc, "ops": len(ops), "accepted": accepted, "answers": answers, "stop_overlapped_producers": overlapped, "store_calls": len(env.log.Snapshot())})
	}
}

var _ = errors.Is
