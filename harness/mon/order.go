package mon

import (
	"context"
	"fmt"
	"strings"
	"sync"
	"sync/atomic"
	"time"

	bs "github.com/danthegoodman1/bloomsearch"

	"verifharness/core"
	"verifharness/gen"
	"verifharness/stores"
	"verifharness/world"
)

func init() {
	Register(&Check{
		Spec: core.Spec{ID: "C07", Level: "exploration",
			Rule:        "case = one started engine whose DataStore/MetaStore wrapper holds a chosen flush-path call (k-th CreateFile/Write/Close/Update) at a gate while 1-3 clients keep issuing non-empty, empty and flush-triggering batches and Flush calls, so Flush lands with 0, 1 or 2 flushes queued or in flight and with empty or non-empty buffers; then the gate opens. Answers are never consumed during the run: a monitor polls len() of the buffered done channels, so 'B answered while an earlier-accepted non-empty A is not' is a monotone state it cannot misread. At every Flush return (nil) all batches accepted before the call must be answered and those answered nil visible to a query. In every third history each batch lives in one of 2-4 partitions and only a partition's own row limit (2-5) triggers flushes, so a later batch can fill its partition while an earlier one sits in another. Every third history has no gate: one flush fails after its file was created (a Write or the Close) and its cleanup (Abort, TombstoneFile) takes 20-60 ms while later flushes succeed; the failed flush's error answers must still precede every later nil. Every fifth case is a late-receiver history instead: the earlier batch has an unbuffered done channel whose receiver only starts once it has seen a later subject answered (or 250 ms), and an explicit Flush, a limit-triggering later batch or a time-triggered flush follows; a later subject answered while that receiver has not started is a violation. non-trivial = history in which at least one Flush was called while a flush was held at the gate; distinct = distinct (gate position, client script, schedule signature)",
			Assumptions: []string{"'accepted earlier' = IngestRows returned before the later call started (logical clock); concurrent calls impose no order", "subjects are non-empty batches and Flush (empty batches are acknowledged on acceptance, pinned by TestEmptyIngestAcksImmediately)"},
			Floors:      map[string]int64{"histories": 50, "flush_calls_while_gated": 50, "order_checks": 2000, "visibility_queries": 60, "late_receiver_histories": 15, "histories_one_partition_per_batch": 20, "histories_failed_flush_slow_cleanup": 20}},
		Cases:       func(t string) int { return nQueries(t, 120, 4000) },
		Run:         runC07,
		RaceMatters: true,
	})
}

type c07Batch struct {
	id       int
	empty    bool
	recs     []*world.RowRec
	ch       chan error
	call     int64
	ret      int64
	accepted bool
	seenTick int64 // first tick at which the monitor saw an answer
}

// runC07Late: an earlier batch's done channel is unbuffered and its receiver deliberately does
// not start receiving until it has seen a later subject answered (or 250 ms). In a correct engine
// nothing accepted later can be answered first, so the receiver always runs into the timeout; if
// Flush returns nil, or a later batch of the same flush is answered, while the receiver has not
// even started, the earlier batch cannot have been answered: a violation that no scheduling of
// harness goroutines can fake (the flag is set before the receive is attempted).
func runC07Late(rc *RunCtx, i int) {
	r := rc.CaseRand(i)
	variant := core.Pick(r, []string{"explicit-flush", "explicit-flush", "limit", "time", "flush-after-commit", "flush-after-commit"})
	var rowsA, rowsB []map[string]any
	env, err := newLifecycleEnv(rc, i, r, func(s *gen.EngineSpec) {
		s.BufRows, s.BufBytes, s.RGRows, s.RGBytes = 1000, 1<<20, 1000, 10<<20
		s.IngestBuf = core.Pick(r, []int{2, 8, 100})
		s.Part = gen.PartFunc{Name: "none"}
		s.Partition = "none"
	})
	if err != nil {
		rc.Violate(i, "scenario-failed", "", err.Error(), nil)
		return
	}
	rr := r.Split("rows")
	var recsA, recsB []*world.RowRec
	rowsA, recsA = makeBatch(rr, env.w, "normal")
	rowsB, recsB = makeBatch(rr, env.w, "normal")
	_ = recsA
	_ = recsB
	cfg := env.spec.Config()
	cfg.MaxBufferedTime = time.Hour
	switch variant {
	case "flush-after-commit":
		// A's own flush is triggered by the row limit and commits; only the delivery of its
		// answer is pending (the receiver is late) when Flush arrives with nothing buffered
		cfg.MaxBufferedRows = len(rowsA)
	case "limit":
		cfg.MaxBufferedRows = len(rowsA) + len(rowsB)
	case "time":
		cfg.MaxBufferedTime = 40 * time.Millisecond
	}
	e, err := bs.NewBloomSearchEngine(cfg, env.w.IMeta, env.w.IData)
	if err != nil {
		rc.Violate(i, "scenario-failed", "", err.Error(), nil)
		return
	}
	env.w.Eng[0] = e
	e.Start()
	defer env.w.Close()
	pm := installPoints(r.Split("points"), true, 200)
	defer pm.uninstall(rc.Res)
	desc := map[string]any{"case": env.w.Case, "variant": variant, "rows_a": len(rowsA), "rows_b": len(rowsB), "engine": env.spec}

	chA := make(chan error) // unbuffered; the receiver keeps receiving, it just starts late
	var laterAnswered, recvStarted atomic.Bool
	gotA := make(chan error, 1)
	go func() {
		for t := 0; t < 1000 && !laterAnswered.Load(); t++ {
			time.Sleep(250 * time.Microsecond)
		}
		recvStarted.Store(true)
		gotA <- <-chA
	}()
	ctx, cancel := context.WithTimeout(context.Background(), core.Patience)
	defer cancel()
	if err := e.IngestRows(ctx, rowsA, chA); err != nil {
		rc.Violate(i, "scenario-failed", "", "IngestRows A: "+err.Error(), desc)
		return
	}
	viol := ""
	chB := make(chan error, 2)
	if variant == "flush-after-commit" {
		// wait until A's flush has committed (its MetaStore.Update returned)
		for t := 0; t < 2000 && len(env.w.IMeta.UpdateRecs()) == 0; t++ {
			time.Sleep(250 * time.Microsecond)
		}
	} else if variant != "explicit-flush" || r.Bool() {
		if err := e.IngestRows(ctx, rowsB, chB); err != nil {
			rc.Violate(i, "scenario-failed", "", "IngestRows B: "+err.Error(), desc)
			return
		}
		desc["later_batch"] = true
	}
	flushDone := make(chan error, 1)
	if variant == "explicit-flush" || variant == "flush-after-commit" {
		go func() { flushDone <- e.Flush(ctx) }()
	}
	// watch the later subjects until the receiver has started on its own
	for t := 0; t < 4000 && !recvStarted.Load(); t++ {
		if len(chB) > 0 {
			started := recvStarted.Load()
			laterAnswered.Store(true)
			if !started {
				viol = "a later batch of the same flush was answered while the earlier batch's unbuffered done channel had no receiver yet (the earlier batch cannot have been answered)"
			}
			break
		}
		select {
		case ferr := <-flushDone:
			started := recvStarted.Load()
			laterAnswered.Store(true)
			flushDone <- ferr
			if ferr == nil && !started {
				viol = "Flush returned nil while the earlier batch's unbuffered done channel had no receiver yet (the earlier batch cannot have been answered)"
			}
		default:
		}
		if laterAnswered.Load() {
			break
		}
		time.Sleep(100 * time.Microsecond)
	}
	laterAnswered.Store(true) // release the receiver in every case
	select {
	case <-gotA:
	case <-time.After(core.Patience):
		rc.Res.Inconc("C07 late-receiver: batch A not answered 20 s after its receiver started")
		return
	}
	rc.Res.Eval(1)
	rc.Res.Count("late_receiver_histories", 1)
	rc.Res.Count("late."+variant, 1)
	rc.Res.Nontrivial(env.w.Case, variant, len(rowsA), len(rowsB))
	if viol != "" {
		rc.Violate(i, "ack-order-violated", "", viol, map[string]any{"history": desc})
	}
}

func runC07(rc *RunCtx, i int) {
	if i%5 == 4 {
		runC07Late(rc, i)
		return
	}
	r := rc.CaseRand(i)
	maxBuf := core.Pick(r, []time.Duration{40 * time.Millisecond, time.Hour, time.Hour})
	// every third history: each batch lives in one partition of a handful (key "pk" set by the
	// harness), and only a partition's own row limit triggers flushes, so that a later batch
	// can fill its partition while an earlier batch sits in another one
	onePart := i%3 == 1
	env, err := newLifecycleEnv(rc, i, r, func(s *gen.EngineSpec) {
		s.BufRows = core.Pick(r, []int{2, 4, 8, 1000})
		s.IngestBuf = core.Pick(r, []int{2, 8, 100})
		if onePart {
			s.Part = gen.PartByKey("pk")
			s.Partition = s.Part.Name
			s.BufRows, s.BufBytes, s.RGBytes = 1000, 1<<20, 10<<20
			s.RGRows = core.Pick(r, []int{2, 3, 5})
		}
	})
	if err != nil {
		rc.Violate(i, "scenario-failed", "", err.Error(), nil)
		return
	}
	if onePart {
		rc.Res.Count("histories_one_partition_per_batch", 1)
	}
	pks := []string{"x", "y", "z", "w"}[:r.Range(2, 4)]
	cfg := env.spec.Config()
	cfg.MaxBufferedTime = maxBuf
	e, err := bs.NewBloomSearchEngine(cfg, env.w.IMeta, env.w.IData)
	if err != nil {
		rc.Violate(i, "scenario-failed", "", err.Error(), nil)
		return
	}
	env.w.Eng[0] = e
	e.Start()
	defer env.w.Close()
	clock := env.clock

	gateKind := core.Pick(r, []string{"CreateFile", "Write", "Write", "Close", "Update"})
	gateN := r.Range(0, 2)
	if gateKind == "Write" {
		gateN = r.Range(0, 9)
	}
	// every third history has no gate: instead one flush fails after its file was created (its
	// k-th Write or its Close) and the cleanup it provokes (Abort, TombstoneFile) is slow, while
	// later flushes succeed - the error answer of the failed flush must still come first
	failMode := i%3 == 2
	failKind, failN := core.Pick(r, []string{"Write", "Write", "Close"}), r.Range(0, 3)
	if failMode {
		gateN = -1
		rc.Res.Count("histories_failed_flush_slow_cleanup", 1)
	}
	gate := stores.NewGate(false)
	var gateHit atomic.Bool
	pr := r.Split("plan")
	var pmu sync.Mutex
	env.log.Plan = &stores.Plan{Decide: func(c *stores.Call) stores.Action {
		pmu.Lock()
		defer pmu.Unlock()
		var a stores.Action
		if failMode {
			if c.Kind == failKind && c.N == failN {
				a.Fail = true
			}
			if c.Kind == "Abort" || c.Kind == "TombstoneFile" {
				a.Delay = time.Duration(pr.Range(20, 60)) * time.Millisecond
			}
			return a
		}
		if c.Kind == gateKind && c.N == gateN {
			a.Gate = gate
			gateHit.Store(true)
		}
		if pr.Intn(6) == 0 {
			a.Delay = time.Duration(pr.Range(10, 300)) * time.Microsecond
		}
		return a
	}}
	pm := installPoints(r.Split("points"), true, 300)
	defer pm.uninstall(rc.Res)

	var mu sync.Mutex // ledger lock
	var batches []*c07Batch
	var violation string
	var vwit any
	setViol := func(s string, w any) {
		if violation == "" {
			violation, vwit = s, w
		}
	}
	answered := func(b *c07Batch) bool { return len(b.ch) > 0 }
	// checkBefore: every non-empty accepted batch whose IngestRows returned before tick must be answered
	checkBefore := func(tick int64, subject string) bool {
		for _, a := range batches {
			if a.empty || !a.accepted || a.ret == 0 || a.ret >= tick {
				continue
			}
			rc.Res.Count("order_checks", 1)
			if !answered(a) {
				setViol(fmt.Sprintf("%s while batch %d (accepted at tick %d, before tick %d) is still unanswered", subject, a.id, a.ret, tick), nil)
				return false
			}
		}
		return true
	}
	// polling monitor
	monStop := make(chan struct{})
	var monWG sync.WaitGroup
	monWG.Add(1)
	go func() {
		defer monWG.Done()
		for {
			select {
			case <-monStop:
				return
			default:
			}
			mu.Lock()
			for _, b := range batches {
				if b.seenTick == 0 && b.accepted && answered(b) {
					b.seenTick = clock.Tick()
					if !b.empty {
						// peek at the answer without consuming: take and put back (single consumer: the monitor)
						v := <-b.ch
						b.ch <- v
						if v == nil {
							checkBefore(b.call, fmt.Sprintf("batch %d was answered nil", b.id))
						}
					}
				}
			}
			mu.Unlock()
			time.Sleep(100 * time.Microsecond)
		}
	}()

	clients := r.Range(1, 3)
	var flushWhileGated atomic.Int64
	var cwg, fwg sync.WaitGroup
	rowRand := r.Split("rows")
	var rowMu sync.Mutex
	desc := map[string]any{"case": env.w.Case, "gate": fmt.Sprintf("%s#%d", gateKind, gateN), "clients": clients, "engine": env.spec, "max_buffered_time": maxBuf.String()}
	scripts := make([][]string, clients)
	for c := range scripts {
		n := r.Range(4, 14)
		for k := 0; k < n; k++ {
			scripts[c] = append(scripts[c], core.Pick(r, []string{"batch", "batch", "batch", "empty", "flush", "flush", "pause"}))
		}
	}
	if maxBuf < time.Second && i%2 == 0 && !failMode {
		// the flush that is held at the gate is a time-triggered one and nothing is queued behind
		// it when Flush arrives with empty buffers
		clients = 1
		scripts = [][]string{{"batch", "waitgate", "flush", "pause", "flush", core.Pick(r, []string{"batch", "empty", "flush"}), "waitgate", "flush"}}
		gateKind, gateN = core.Pick(r, []string{"CreateFile", "Write", "Close", "Update"}), 0
		rc.Res.Count("histories_time_triggered_flush_at_gate", 1)
	}
	desc["scripts"] = scripts
	desc["gate"] = fmt.Sprintf("%s#%d", gateKind, gateN)
	doFlush := func() {
		fwg.Add(1)
		gated := gateHit.Load() && !gate.IsOpen()
		if gated {
			flushWhileGated.Add(1)
		}
		callTick := clock.Tick()
		go func() {
			defer fwg.Done()
			err := e.Flush(context.Background())
			if err != nil {
				return
			}
			mu.Lock()
			ok := checkBefore(callTick, fmt.Sprintf("Flush (called at tick %d) returned nil", callTick))
			// rows that must be visible now: earlier batches answered nil
			want := map[string]int{}
			if ok {
				for _, a := range batches {
					if a.empty || !a.accepted || a.ret == 0 || a.ret >= callTick || !answered(a) {
						continue
					}
					v := <-a.ch
					a.ch <- v
					if v == nil {
						for _, rec := range a.recs {
							want[rec.VID]++
						}
					}
				}
			}
			mu.Unlock()
			if !ok {
				return
			}
			ctx, cancel := context.WithTimeout(context.Background(), core.Patience)
			res := world.RunQuery(ctx, e, &bs.Query{})
			cancel()
			rc.Res.Count("visibility_queries", 1)
			if res.QErr != nil || res.Err != nil {
				return // concurrent flushes on a healthy store do not fail; C14 owns query errors
			}
			for vid, n := range want {
				if res.VIDs[vid] < n {
					mu.Lock()
					setViol(fmt.Sprintf("Flush (called at tick %d) returned nil but row %s of an earlier batch answered nil is not visible", callTick, vid), nil)
					mu.Unlock()
					return
				}
			}
		}()
	}
	for c := 0; c < clients; c++ {
		cwg.Add(1)
		go func(c int) {
			defer cwg.Done()
			for _, op := range scripts[c] {
				switch op {
				case "pause":
					time.Sleep(time.Duration(200+c*100) * time.Microsecond)
				case "waitgate":
					for t := 0; t < 1000 && !gateHit.Load(); t++ {
						time.Sleep(500 * time.Microsecond)
					}
				case "flush":
					doFlush()
				default:
					b := &c07Batch{empty: op == "empty", ch: make(chan error, 2)}
					var rows []map[string]any
					if !b.empty {
						rowMu.Lock()
						rows, b.recs = makeBatch(rowRand, env.w, "normal")
						if onePart {
							if len(rows) > 3 {
								rows, b.recs = rows[:3], b.recs[:3]
							}
							pk := core.Pick(rowRand, pks)
							for _, row := range rows {
								row["pk"] = pk
							}
						}
						rowMu.Unlock()
					} else {
						rows = []map[string]any{}
					}
					mu.Lock()
					b.id = len(batches)
					batches = append(batches, b)
					b.call = clock.Tick()
					mu.Unlock()
					ctx, cancel := context.WithTimeout(context.Background(), 250*time.Millisecond)
					err := e.IngestRows(ctx, rows, b.ch)
					cancel()
					mu.Lock()
					b.ret = clock.Tick()
					b.accepted = err == nil
					mu.Unlock()
				}
			}
		}(c)
	}
	cwg.Wait()
	// a last Flush while still gated, then release
	if gateHit.Load() {
		doFlush()
		time.Sleep(2 * time.Millisecond)
	}
	gate.Open()
	doneF := make(chan struct{})
	go func() { fwg.Wait(); close(doneF) }()
	verdict := awaitProgress(doneF)
	if verdict != "" {
		close(monStop)
		monWG.Wait()
		if strings.HasPrefix(verdict, "stuck:") {
			rc.Violate(i, "flush-stuck", "", "Flush calls did not return after the gate was opened", map[string]any{"history": desc, "dump": strings.TrimPrefix(verdict, "stuck:")})
		} else {
			rc.Res.Inconc("C07 watchdog")
		}
		return
	}
	// final barrier
	ctx, cancel := context.WithTimeout(context.Background(), core.Patience)
	ferr := e.Flush(ctx)
	cancel()
	finalTick := clock.Tick()
	time.Sleep(time.Millisecond)
	close(monStop)
	monWG.Wait()
	mu.Lock()
	if ferr == nil {
		checkBefore(finalTick, "the final Flush returned nil")
	}
	viol, vw := violation, vwit
	nb := len(batches)
	mu.Unlock()
	rc.Res.Eval(1)
	rc.Res.Count("histories", 1)
	rc.Res.Count("batches", int64(nb))
	rc.Res.Count("flush_calls_while_gated", flushWhileGated.Load())
	rc.Res.Count("gate."+gateKind, 1)
	if gateHit.Load() {
		rc.Res.Count("histories_gate_reached", 1)
	}
	if flushWhileGated.Load() > 0 {
		rc.Res.Nontrivial(env.w.Case, gateKind, gateN, fmt.Sprint(scripts))
	}
	if viol != "" {
		var hist []map[string]any
		mu.Lock()
		for _, b := range batches {
			hist = append(hist, map[string]any{"id": b.id, "empty": b.empty, "call": b.call, "ret": b.ret, "accepted": b.accepted, "answer_seen_at": b.seenTick, "answered": answered(b)})
		}
		mu.Unlock()
		rc.Violate(i, "ack-order-violated", "", viol, map[string]any{"history": desc, "batches": hist, "detail": vw})
		return
	}
	if i < 3 {
		rc.Res.Sample(map[string]any{"history": desc, "batches": nb, "flush_calls_while_gated": flushWhileGated.Load(), "gate_reached": gateHit.Load()})
	}
}
