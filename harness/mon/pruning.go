package mon

import (
	"bytes"
	"context"
	"fmt"
	"sync"

	bs "github.com/danthegoodman1/bloomsearch"

	"verifharness/core"
	"verifharness/refsem"
	"verifharness/stores"
	"verifharness/world"
)

func init() {
	Register(&Check{
		Spec: core.Spec{ID: "C24", Level: "exploration",
			Rule:        "case = generated scenario behind an instrumented DataStore (every OpenFile and every Read with file, offset, length logged) x generated queries run one at a time; expected pruning is recomputed from the real filter bits (file-level filters as the MetaStore yields them, block filters through ReadDataBlockBloomFilters) the query's bloom tree and, at block level, the field-presence demand of its regex tree (FieldRegex(f, ..) can only match rows that have field f; weakest reading: nil/empty/unknown nodes demand nothing); non-trivial = query for which at least one file or block is ruled out; distinct = distinct (scenario, query JSON)",
			Assumptions: []string{"file level: only the bloom tree defines 'ruled out' (the property's wording); block level: bloom tree and the regex trees' field-presence demand", "trees containing unknown node kinds carry no file/block-level verdict", "'no bloom or regex conditions' = both expressions nil/absent"},
			Floors:      map[string]int64{"queries": 200, "files_ruled_out": 20, "blocks_ruled_out": 50, "reads_checked": 500}},
		Cases: func(t string) int { return nQueries(t, 64, 3000) },
		Run:   runC24,
	})
	Register(&Check{
		Spec: core.Spec{ID: "C23", Level: "exploration",
			Rule:        "case = generated scenario x generated queries (clean completion), plus the cancel/Close/fault scripts of C20 (terminated and failing queries); after Next returned false, Stats is checked against the inventory and the returned rows; non-trivial = query whose stats list >= 1 block; distinct = distinct (scenario, query JSON / script)",
			Assumptions: []string{"all-or-none per file is asserted on queries that were not cancelled or closed early", "must/may as in C02"},
			Floors:      map[string]int64{"queries": 200, "block_stats_checked": 500}},
		Cases: func(t string) int { return nQueries(t, 64, 3000) },
		Run:   runC23,
	})
}

type extent struct{ lo, hi int64 } // [lo, hi)

func (e extent) intersects(o extent) bool {
	return e.lo < o.hi && o.lo < e.hi && e.lo < e.hi && o.lo < o.hi
}

func runC24(rc *RunCtx, i int) {
	r := rc.CaseRand(i)
	o := world.BuildOpts{MoreMerge: i%3 == 0, HighFPR: i%4 == 0}
	c, err := buildDP(rc, i, o, true)
	if err != nil {
		rc.Violate(i, "scenario-failed", "", err.Error(), nil)
		return
	}
	defer c.w.Close()
	rc.Res.Count("scenarios", 1)
	// per-file raw bytes, block filters
	type fileInfo struct {
		inv   *world.FileInv
		size  int64
		bf    []*bs.BloomFilters
		regio extent
	}
	files := map[string]*fileInfo{}
	for _, f := range c.inv {
		raw, err := c.w.FileBytes(f.Ptr)
		if err != nil {
			rc.Violate(i, "file-unreadable", "", err.Error(), c.d)
			return
		}
		fi := &fileInfo{inv: f, size: int64(len(raw)), regio: extent{int64(f.Meta.BlockFilterRegionOffset), int64(f.Meta.BlockFilterRegionOffset + f.Meta.BlockFilterRegionSize)}}
		for _, b := range f.Blocks {
			bf, err := bs.ReadDataBlockBloomFilters(bytes.NewReader(raw), b.Meta)
			if err != nil {
				rc.Violate(i, "ReadDataBlockBloomFilters-failed", "", err.Error(), c.d)
				return
			}
			fi.bf = append(fi.bf, bf)
		}
		files[f.Ptr] = fi
	}
	facts := c.w.Facts()
	qr := r.Split("queries")
	nq := nQueries(rc.Tier, 30, 50)
	for k := 0; k < nq; k++ {
		q := facts.Query(qr)
		if k%7 == 3 { // plain prefilter-only / empty queries: the "no filter region read" clause
			q = &bs.Query{}
			if qr.Bool() {
				e := facts.PrefilterTree(qr, 2, false)
				q.Prefilter = &bs.QueryPrefilter{Expression: &e}
			}
		}
		if refsem.CheckRegex(regexOf(q)) == refsem.RegexInvalid {
			continue
		}
		e := c.w.Eng[qr.Intn(len(c.w.Eng))]
		l0 := len(c.log.Snapshot())
		// every fifth query meets one transient store failure (the n-th OpenFile or Read of the
		// query fails once): the query then reports an error, but what it reads is judged as ever
		faulted := false
		if k%5 == 4 {
			kind := core.Pick(qr, []string{"OpenFile", "OpenFile", "Read"})
			base, nth := c.log.Count(kind), qr.Range(0, 5)
			var fmu sync.Mutex
			c.log.Plan = &stores.Plan{Decide: func(cl *stores.Call) stores.Action {
				fmu.Lock()
				defer fmu.Unlock()
				if cl.Kind == kind && cl.N == base+nth && !faulted {
					faulted = true
					return stores.Action{Fail: true}
				}
				return stores.Action{}
			}}
		}
		ctx, cancel := context.WithTimeout(context.Background(), core.Patience)
		res := world.RunQuery(ctx, e, q)
		cancel()
		c.log.Plan = nil
		rc.Res.Eval(1)
		rc.Res.Count("queries", 1)
		if faulted {
			rc.Res.Count("queries_with_transient_store_failure", 1)
		}
		if (res.QErr != nil || res.Err != nil) && !faulted {
			rc.Violate(i, "query-error-on-healthy-stores", "", fmt.Sprintf("%v %v", res.QErr, res.Err), map[string]any{"query": queryJSON(q), "scenario": c.d})
			continue
		}
		calls := c.log.Snapshot()[l0:]
		var bloom *bs.BloomExpression
		if q.Bloom != nil {
			bloom = q.Bloom.Expression
		}
		noConditions := bloom == nil && (q.Regex == nil || q.Regex.Expression == nil)
		verdictable := !hasUnknownBloom(bloom)
		opened := map[string]bool{}
		reads := map[string][]extent{}
		for _, cl := range calls {
			switch cl.Kind {
			case "OpenFile":
				opened[cl.File] = true
			case "Read":
				reads[cl.File] = append(reads[cl.File], extent{cl.Off, cl.Off + cl.Req})
			}
		}
		wit := func(extra any) map[string]any {
			return map[string]any{"query": queryJSON(q), "scenario": c.d, "detail": extra}
		}
		ruledOutSomething := false
		for ptr, fi := range files {
			f := fi.inv
			fileOut := verdictable && bloom != nil && !bloomOnFilters(&f.Meta.BloomFilters, bloom)
			if fileOut {
				rc.Res.Count("files_ruled_out", 1)
				ruledOutSomething = true
				if opened[ptr] {
					rc.Violate(i, "ruled-out-file-opened", "", "a file whose file-level filters rule out the bloom expression was opened", wit(ptr))
					break
				}
			}
			var declared []extent
			declared = append(declared, fi.regio)
			for bi, b := range f.Blocks {
				rowExt := extent{int64(b.Meta.RowDataOffset), int64(b.Meta.RowDataOffset + b.Meta.RowDataSize)}
				declared = append(declared, rowExt)
				out := ""
				if !refsem.BlockEval(&b.Meta, q.Prefilter, refsem.May) {
					out = "prefilter (referenced partition/minmax metadata missing)"
				} else if verdictable && bloom != nil && !bloomOnFilters(fi.bf[bi], bloom) {
					out = "block filters"
				} else if !regexGuardOnFilters(fi.bf[bi], regexOf(q)) {
					// a FieldRegex(f, ..) condition can only match a row that has field f: a block
					// whose field filter lacks f holds no such row (the exported
					// RegexFieldGuardBloomQuery is this implication)
					out = "block field filter (a field its regex conditions need is absent)"
					rc.Res.Count("blocks_ruled_out_by_regex_field_guard", 1)
				} else if fileOut {
					out = "file-level filters"
				}
				if out == "" {
					continue
				}
				rc.Res.Count("blocks_ruled_out", 1)
				ruledOutSomething = true
				for _, rd := range reads[ptr] {
					if rd.intersects(rowExt) {
						rc.Violate(i, "ruled-out-block-read", "", fmt.Sprintf("row data of a block ruled out by its %s was read", out), wit(map[string]any{"file": ptr, "block": bi, "read": []int64{rd.lo, rd.hi}, "row_data": []int64{rowExt.lo, rowExt.hi}}))
						break
					}
				}
			}
			for _, rd := range reads[ptr] {
				rc.Res.Count("reads_checked", 1)
				if rd.lo < 0 || rd.hi > fi.size {
					rc.Violate(i, "read-outside-file", "", fmt.Sprintf("read [%d,%d) outside the file's %d bytes", rd.lo, rd.hi, fi.size), wit(ptr))
					break
				}
				covered := rd.lo >= rd.hi
				for _, d := range declared {
					if rd.lo >= d.lo && rd.hi <= d.hi {
						covered = true
						break
					}
				}
				if !covered {
					// a chunked region read or a read spanning adjacent extents is fine as long as it stays inside their union
					covered = insideUnion(rd, declared)
				}
				if !covered {
					rc.Violate(i, "read-outside-declared-extents", "", fmt.Sprintf("read [%d,%d) is not inside the row-data extents and filter region the metadata declares", rd.lo, rd.hi), wit(ptr))
					break
				}
				if noConditions && rd.intersects(fi.regio) {
					rc.Violate(i, "filter-region-read-without-conditions", "", fmt.Sprintf("a query without bloom or regex conditions read [%d,%d) of the block filter region [%d,%d)", rd.lo, rd.hi, fi.regio.lo, fi.regio.hi), wit(ptr))
					break
				}
			}
		}
		if noConditions {
			rc.Res.Count("queries_without_conditions", 1)
		}
		if ruledOutSomething {
			rc.Res.Nontrivial(c.d.Case, queryJSON(q))
		}
		if k == 0 && i < 3 {
			rc.Res.Sample(map[string]any{"scenario": c.d, "query": queryJSON(q), "opens": len(opened), "reads": func() int {
				n := 0
				for _, v := range reads {
					n += len(v)
				}
				return n
			}()})
		}
	}
}

// regexGuardOnFilters evaluates what a regex tree demands of a block's field filter, derived from
// the documented semantics alone: FieldRegex(f, p) matches only leaves at or beneath f, and f is
// then a field entry of the row. Deliberately weak wherever the tree gives no demand (nil
// expression or condition, empty field, empty OR, unknown node kinds all count as satisfied), so a
// "ruled out" verdict never rests on more than that implication.
func regexGuardOnFilters(f *bs.BloomFilters, e *bs.RegexExpression) bool {
	if e == nil || f == nil {
		return true
	}
	switch e.ExpressionType {
	case bs.RegexExpressionCondition:
		if e.Condition == nil || e.Condition.Field == "" {
			return true
		}
		return f.FieldBloomFilter == nil || f.FieldBloomFilter.TestString(e.Condition.Field)
	case bs.RegexExpressionAnd:
		for k := range e.Children {
			if !regexGuardOnFilters(f, &e.Children[k]) {
				return false
			}
		}
		return true
	case bs.RegexExpressionOr:
		if len(e.Children) == 0 {
			return true
		}
		for k := range e.Children {
			if regexGuardOnFilters(f, &e.Children[k]) {
				return true
			}
		}
		return false
	}
	return true
}

func insideUnion(rd extent, exts []extent) bool {
	// sweep: is every byte of rd inside some extent?
	pos := rd.lo
	for pos < rd.hi {
		adv := false
		for _, d := range exts {
			if d.lo <= pos && pos < d.hi {
				pos = d.hi
				adv = true
				break
			}
		}
		if !adv {
			return false
		}
	}
	return true
}

// checkStats is the C23 oracle. clean = the query ran to completion without
// cancel/Close and Err == nil.
func checkStats(rc *RunCtx, i int, inv []*world.FileInv, q *bs.Query, res *world.QueryResult, clean, terminated bool, wit func(any) map[string]any) bool {
	st := res.Stats
	type key struct {
		f string
		o int
	}
	seen := map[key]bs.BlockStats{}
	for _, b := range st.BlockStats {
		k := key{string(b.FilePointer), b.BlockOffset}
		if _, dup := seen[k]; dup {
			rc.Violate(i, "block-listed-twice", "", fmt.Sprintf("block %s@%d appears twice in Stats", k.f, k.o), wit(nil))
			return false
		}
		seen[k] = b
		rc.Res.Count("block_stats_checked", 1)
		if b.BloomFilterSkipped && (b.RowsProcessed != 0 || b.BytesProcessed != 0) {
			rc.Violate(i, "skipped-block-with-counters", "", fmt.Sprintf("bloom-skipped block %s@%d reports %d rows / %d bytes processed", k.f, k.o, b.RowsProcessed, b.BytesProcessed), wit(b))
			return false
		}
	}
	var sumRows, sumBytes int64
	proc, skip := 0, 0
	for _, b := range st.BlockStats {
		sumRows += b.RowsProcessed
		sumBytes += b.BytesProcessed
		if b.BloomFilterSkipped {
			skip++
		} else {
			proc++
		}
	}
	if st.RowsScanned != sumRows || st.BytesScanned != sumBytes || st.BlocksProcessed != proc || st.BlocksSkipped != skip {
		rc.Violate(i, "totals-not-sums", "", fmt.Sprintf("totals rows=%d bytes=%d processed=%d skipped=%d; per-block sums rows=%d bytes=%d processed=%d skipped=%d", st.RowsScanned, st.BytesScanned, st.BlocksProcessed, st.BlocksSkipped, sumRows, sumBytes, proc, skip), wit(nil))
		return false
	}
	var pf *bs.QueryPrefilter
	if q != nil {
		pf = q.Prefilter
	}
	returnedFrom := map[key]int{}
	blockOf := map[string]key{}
	for _, f := range inv {
		for _, b := range f.Blocks {
			for _, v := range b.VIDs {
				blockOf[v] = key{f.Ptr, b.Meta.RowDataOffset}
			}
		}
	}
	for vid, n := range res.VIDs {
		returnedFrom[blockOf[vid]] += n
	}
	for _, f := range inv {
		listed, mustTotal, mustListed := 0, 0, 0
		for _, b := range f.Blocks {
			k := key{f.Ptr, b.Meta.RowDataOffset}
			s, ok := seen[k]
			must := refsem.BlockEval(&b.Meta, pf, refsem.Must)
			may := refsem.BlockEval(&b.Meta, pf, refsem.May)
			if must {
				mustTotal++
			}
			if ok {
				listed++
				if must {
					mustListed++
				}
				if !may {
					rc.Violate(i, "pruned-block-listed", "", fmt.Sprintf("block %s@%d lacks metadata the prefilter references but is listed in Stats", k.f, k.o), wit(s))
					return false
				}
				if s.TotalRows != int64(b.Meta.Rows) || s.TotalBytes != int64(b.Meta.OnDiskSize()) {
					rc.Violate(i, "block-totals-wrong", "", fmt.Sprintf("block %s@%d: TotalRows=%d TotalBytes=%d, metadata Rows=%d OnDiskSize=%d", k.f, k.o, s.TotalRows, s.TotalBytes, b.Meta.Rows, b.Meta.OnDiskSize()), wit(s))
					return false
				}
				if clean && !s.BloomFilterSkipped {
					if s.RowsProcessed != int64(len(b.VIDs)) || s.RowsProcessed != int64(b.Meta.Rows) || s.BytesProcessed != int64(len(b.RowData)) {
						rc.Violate(i, "processed-counters-wrong", "", fmt.Sprintf("block %s@%d processed %d rows / %d bytes; it holds %d rows / %d uncompressed bytes", k.f, k.o, s.RowsProcessed, s.BytesProcessed, len(b.VIDs), len(b.RowData)), wit(s))
						return false
					}
				}
			}
			if returnedFrom[k] > 0 && (!ok || s.BloomFilterSkipped) {
				rc.Violate(i, "returned-rows-from-unlisted-block", "", fmt.Sprintf("block %s@%d contributed %d returned rows but is listed=%v skipped=%v", k.f, k.o, returnedFrom[k], ok, ok && s.BloomFilterSkipped), wit(nil))
				return false
			}
		}
		if !terminated && listed > 0 && mustListed != mustTotal {
			rc.Violate(i, "file-partially-listed", "", fmt.Sprintf("file %s: %d of its %d prefilter-satisfying blocks are listed in Stats (all or none expected)", f.Ptr, mustListed, mustTotal), wit(nil))
			return false
		}
	}
	if clean && st.RowsMatched != int64(len(res.Rows)) {
		rc.Violate(i, "rows-matched-wrong", "", fmt.Sprintf("RowsMatched=%d, rows returned=%d", st.RowsMatched, len(res.Rows)), wit(nil))
		return false
	}
	return true
}

func runC23(rc *RunCtx, i int) {
	r := rc.CaseRand(i)
	o := world.BuildOpts{MoreMerge: i%3 == 0, HighFPR: i%2 == 0}
	c, err := buildDP(rc, i, o, false)
	if err != nil {
		rc.Violate(i, "scenario-failed", "", err.Error(), nil)
		return
	}
	defer c.w.Close()
	rc.Res.Count("scenarios", 1)
	facts := c.w.Facts()
	qr := r.Split("queries")
	nq := nQueries(rc.Tier, 30, 50)
	for k := 0; k < nq; k++ {
		q := facts.Query(qr)
		if refsem.CheckRegex(regexOf(q)) == refsem.RegexInvalid {
			continue
		}
		e := c.w.Eng[qr.Intn(len(c.w.Eng))]
		ctx, cancel := context.WithTimeout(context.Background(), core.Patience)
		res := world.RunQuery(ctx, e, q)
		cancel()
		rc.Res.Eval(1)
		rc.Res.Count("queries", 1)
		if res.QErr != nil || res.Err != nil {
			rc.Violate(i, "query-error-on-healthy-stores", "", fmt.Sprintf("%v %v", res.QErr, res.Err), map[string]any{"query": queryJSON(q), "scenario": c.d})
			continue
		}
		wit := func(extra any) map[string]any {
			return map[string]any{"query": queryJSON(q), "scenario": c.d, "stats": res.Stats, "detail": extra}
		}
		if !checkStats(rc, i, c.inv, q, res, true, false, wit) {
			continue
		}
		if len(res.Stats.BlockStats) > 0 {
			rc.Res.Nontrivial(c.d.Case, queryJSON(q))
		}
		rc.Res.Count("blocks_skipped", int64(res.Stats.BlocksSkipped))
		rc.Res.Count("blocks_processed", int64(res.Stats.BlocksProcessed))
		if k == 0 && i < 3 {
			rc.Res.Sample(map[string]any{"scenario": c.d, "query": queryJSON(q), "blocks_processed": res.Stats.BlocksProcessed, "blocks_skipped": res.Stats.BlocksSkipped, "rows_matched": res.Stats.RowsMatched})
		}
	}
	runScriptCases(rc, i, "C23")
}

var _ = stores.ErrInjected
