package mon

import (
	"bytes"
	"context"
	"fmt"
	"io"
	"os"
	"path/filepath"
	"sort"
	"strings"
	"sync"

	bs "github.com/danthegoodman1/bloomsearch"

	"verifharness/core"
	"verifharness/extfmt"
)

func init() {
	Register(&Check{
		Spec: core.Spec{ID: "C16", Level: "exploration",
			Rule:        "case = batch of generated operation sequences (<= 40 ops) over 1-6 interleaved writers on a real temporary directory, with the file-name draw forced (tagged setter) through a pool of 1-4 names plus occasional fresh names so collisions with published files, reservations, orphan .tmp files and other writers are the norm; payloads are valid bloom files, truncated ones and garbage. After every operation a 40-line sequential model (name -> reserved / writing / published(bytes) / gone) is compared with the directory listing, with OpenFile of every published pointer, and periodically with the scan (a third of the aborts of in-flight writers happen right after a scan has listed the directory, so an entry vanishes under the scan). A concurrent variant (goroutine per writer, -race) checks the final state. non-trivial = sequence in which CreateFile had to redraw at least once or a tombstone/abort hit a live artifact; distinct = distinct op sequences",
			Assumptions: []string{"a writer whose pointer was tombstoned mid-write is retired (the engine never keeps writing to a pointer it tombstoned)", "the writer is used from one goroutine at a time (DataStore contract); a redundant second Close or an Abort after Close may return anything but must change nothing"},
			Floors:      map[string]int64{"sequences": 200, "ops": 4000, "collisions_forced": 300, "scans_with_entry_removed_underneath": 40}},
		Cases:       func(t string) int { return nQueries(t, 64, 1600) },
		Run:         runC16,
		RaceMatters: true,
	})
}

type c16Writer struct {
	w       io.WriteCloser
	ptr     string
	base    string
	buf     []byte
	state   string // open, closed, aborted, retired
	payload string
}

func validBloomFile(r *core.Rand, tag string) []byte {
	rows := [][]byte{[]byte(fmt.Sprintf(`{"_vid":"%s","a":"x y"}`, tag))}
	raw, _, err := extfmt.BuildFile([]extfmt.ExtBlock{{Rows: rows, Codec: "none", Fields: []string{"_vid", "a"}, Tokens: []string{tag, "x", "y"}, Pairs: []string{"a::x"}, FPR: 0.01}}, extfmt.ExtOpts{FPR: 0.01})
	if err != nil {
		panic(err)
	}
	return raw
}

func runC16(rc *RunCtx, i int) {
	r := rc.CaseRand(i)
	nseq := 8
	if rc.Tier == "thorough" {
		nseq = 14
	}
	for s := 0; s < nseq; s++ {
		if s%4 == 3 {
			c16Concurrent(rc, i, s, r.Split("conc", s))
		} else {
			c16Sequence(rc, i, s, r.Split("seq", s))
		}
	}
}

func listDir(dir string) map[string]int64 {
	out := map[string]int64{}
	ents, _ := os.ReadDir(dir)
	for _, e := range ents {
		if info, err := e.Info(); err == nil {
			out[e.Name()] = info.Size()
		}
	}
	return out
}

// c16DirPattern: store roots whose own path contains the store's file extensions (".dat",
// ".tmp") or other awkward substrings — artifact paths must be derived from the file name, not
// from the first match anywhere in the path.
func c16DirPattern(r *core.Rand) string {
	return core.Pick(r, []string{"d", "d", "index.data-", "x.dat.d-", "a.tmp.b-", "bloom-.dat-", "sp ace-", "d.dat"})
}

func c16Sequence(rc *RunCtx, i, s int, r *core.Rand) {
	dir, err := os.MkdirTemp(scratchDir("c16"), c16DirPattern(r))
	if err != nil {
		rc.Res.Inconc("mkdtemp: " + err.Error())
		return
	}
	defer os.RemoveAll(dir)
	// foreign entries the store must leave alone and the scan must not list: a sub-directory and
	// files with data-like names, garbage or empty
	foreign := map[string]int64{}
	if r.Bool() {
		os.Mkdir(filepath.Join(dir, "sub.dat"), 0o755)
		os.WriteFile(filepath.Join(dir, "notes.txt"), []byte("not a bloom file"), 0o600)
		os.WriteFile(filepath.Join(dir, "zz-foreign.dat"), bytes.Repeat([]byte{0xab}, r.Range(1, 300)), 0o600)
		os.WriteFile(filepath.Join(dir, "zz-old.dat.bak"), validBloomFile(r, "bak"), 0o600)
		os.WriteFile(filepath.Join(dir, "zz-empty.dat"), nil, 0o600)
		os.WriteFile(filepath.Join(dir, "zz-orphan.tmp"), []byte("half a write"), 0o600)
		foreign = listDir(dir)
	}
	fs := bs.NewFileSystemDataStore(dir)
	pool := []string{"n0", "n1", "n2", "n3"}[:r.Range(1, 4)]
	fresh := 0
	draws, redraws := 0, 0
	dr := r.Split("draw")
	fs.VerifSetFileNameDraw(func() string {
		draws++
		if dr.Chance(0.75) {
			return core.Pick(dr, pool)
		}
		fresh++
		return fmt.Sprintf("fresh%d", fresh)
	})
	// model
	type art struct {
		published bool
		bytes     []byte // published content
	}
	dat := map[string]*art{}   // base -> .dat artifact
	tmp := map[string][]byte{} // base -> .tmp content
	var writers []*c16Writer
	var ops []string
	hitLive := 0
	ctx := context.Background()
	fail := func(kind, msg string) {
		rc.Violate(i, kind, "", msg, map[string]any{"ops": ops, "pool": pool, "dir_listing": listDir(dir)})
	}
	check := func(after string) bool {
		want := map[string]int64{}
		for n, sz := range foreign {
			want[n] = sz
		}
		for b, a := range dat {
			want[b+".dat"] = int64(len(a.bytes))
		}
		for b, c := range tmp {
			want[b+".tmp"] = int64(len(c))
		}
		got := listDir(dir)
		if len(got) != len(want) {
			fail("directory-differs-from-model", fmt.Sprintf("after %s: directory has %v, specification says %v", after, got, want))
			return false
		}
		for n, sz := range want {
			if g, ok := got[n]; !ok || g != sz {
				fail("directory-differs-from-model", fmt.Sprintf("after %s: %s has size %d (present=%v), specification says %d", after, n, g, ok, sz))
				return false
			}
		}
		for b, a := range dat {
			if !a.published {
				continue
			}
			h, err := fs.OpenFile(ctx, []byte(filepath.Join(dir, b+".dat")))
			if err != nil {
				fail("published-file-unreadable", fmt.Sprintf("after %s: OpenFile(%s.dat): %v", after, b, err))
				return false
			}
			gotb, _ := io.ReadAll(h)
			h.Close()
			if !bytes.Equal(gotb, a.bytes) {
				fail("published-bytes-changed", fmt.Sprintf("after %s: %s.dat holds %d bytes that differ from the %d bytes its writer wrote", after, b, len(gotb), len(a.bytes)))
				return false
			}
		}
		return true
	}
	nops := r.Range(8, 40)
	for k := 0; k < nops; k++ {
		rc.Res.Count("ops", 1)
		var open []*c16Writer
		for _, w := range writers {
			if w.state == "open" {
				open = append(open, w)
			}
		}
		// scan: compares GetMaybeFilesForQuery with the model; with a victim, that in-flight
		// writer is aborted right after the scan has listed the directory (tagged point, same
		// goroutine): its reservation vanishes under the scan, which must go on and list every
		// published file all the same
		scanWith := func(victim *c16Writer) (ok bool) {
			want := map[string]bool{}
			for b, a := range dat {
				if a.published {
					if _, err := extfmt.ParseFooter(a.bytes); err == nil {
						want[filepath.Join(dir, b+".dat")] = true
					}
				}
			}
			// every third scan, an in-flight writer is aborted right after the scan has listed
			// the directory (tagged point, same goroutine): its reservation vanishes under the
			// scan, which must go on and list every published file all the same
			if victim != nil {
				fired := false
				bs.VerifSetPointHook(func(name string) {
					if name == "fs.scan.listed" && !fired {
						fired = true
						victim.w.(interface{ Abort() error }).Abort()
					}
				})
			}
			got := map[string]bool{}
			for f, err := range fs.GetMaybeFilesForQuery(ctx, nil) {
				if err != nil {
					bs.VerifSetPointHook(nil)
					fail("scan-failed", err.Error())
					return false
				}
				got[string(f.PointerBytes)] = true
			}
			bs.VerifSetPointHook(nil)
			ops = append(ops, fmt.Sprintf("scan=%d", len(got)))
			if victim != nil {
				ops = append(ops, fmt.Sprintf("abort-during-scan(%s)", victim.base))
				victim.state = "aborted"
				delete(dat, victim.base)
				delete(tmp, victim.base)
				hitLive++
				rc.Res.Count("scans_with_entry_removed_underneath", 1)
			}
			if len(got) != len(want) {
				fail("scan-differs-from-model", fmt.Sprintf("scan lists %v, specification says %v", keysOf(got), keysOf(want)))
				return false
			}
			for p := range want {
				if !got[p] {
					fail("scan-differs-from-model", fmt.Sprintf("scan misses %s", p))
					return false
				}
			}
			return true
		}
		op := r.Intn(10)
		switch {
		case op <= 2 && len(open) < 6: // create
			d0 := draws
			w, ptr, err := fs.CreateFile(ctx)
			if err != nil {
				fail("create-failed", "CreateFile: "+err.Error())
				return
			}
			redraws += draws - d0 - 1
			p := string(ptr)
			base := strings.TrimSuffix(filepath.Base(p), ".dat")
			ops = append(ops, fmt.Sprintf("create->%s (draws %d)", base, draws-d0))
			if _, live := dat[base]; live {
				fail("create-returned-live-pointer", fmt.Sprintf("CreateFile returned %s which is already reserved, being written or published", p))
				return
			}
			if _, live := tmp[base]; live {
				fail("create-reused-orphan-tmp", fmt.Sprintf("CreateFile returned %s whose .tmp still exists", p))
				return
			}
			dat[base] = &art{}
			tmp[base] = nil
			cw := &c16Writer{w: w, ptr: p, base: base, state: "open", payload: core.Pick(r, []string{"valid", "valid", "truncated", "garbage"})}
			writers = append(writers, cw)
		case op <= 4 && len(open) > 0: // write
			w := core.Pick(r, open)
			var chunk []byte
			switch w.payload {
			case "garbage":
				chunk = bytes.Repeat([]byte{byte(r.Intn(256))}, r.Range(1, 200))
			default:
				full := validBloomFile(r, w.base)
				if w.payload == "truncated" {
					full = full[:len(full)-r.Range(1, 20)]
				}
				if len(w.buf) < len(full) {
					end := len(w.buf) + r.Range(1, len(full)-len(w.buf))
					chunk = full[len(w.buf):end]
				}
			}
			if len(chunk) == 0 {
				continue
			}
			if _, err := w.w.Write(chunk); err != nil {
				fail("write-failed", err.Error())
				return
			}
			w.buf = append(w.buf, chunk...)
			tmp[w.base] = append([]byte(nil), w.buf...)
			ops = append(ops, fmt.Sprintf("write(%s,%d)", w.base, len(chunk)))
		case op == 5 && len(open) > 0: // close
			w := core.Pick(r, open)
			if w.payload == "valid" { // finish a valid file so the scan has something to list
				full := validBloomFile(r, w.base)
				if len(w.buf) < len(full) {
					w.w.Write(full[len(w.buf):])
					w.buf = full
				}
			}
			err := w.w.Close()
			ops = append(ops, fmt.Sprintf("close(%s)=%v", w.base, err))
			if err != nil {
				fail("close-failed", "Close: "+err.Error())
				return
			}
			w.state = "closed"
			dat[w.base] = &art{published: true, bytes: append([]byte(nil), w.buf...)}
			delete(tmp, w.base)
		case op == 6 && len(open) > 0 && r.Intn(3) == 0: // abort while a scan is between listing and reading
			if !scanWith(core.Pick(r, open)) {
				return
			}
		case op == 6 && len(open) > 0: // abort
			w := core.Pick(r, open)
			err := w.w.(interface{ Abort() error }).Abort()
			ops = append(ops, fmt.Sprintf("abort(%s)=%v", w.base, err))
			if err != nil {
				fail("abort-failed", "Abort: "+err.Error())
				return
			}
			w.state = "aborted"
			delete(dat, w.base)
			delete(tmp, w.base)
			hitLive++
		case op == 9 && len(writers) > 0 && r.Bool(): // a redundant second Close (e.g. a deferred one): whatever it returns, nothing changes
			w := core.Pick(r, writers)
			if w.state != "closed" {
				continue
			}
			err := w.w.Close()
			ops = append(ops, fmt.Sprintf("close-again(%s)=%v", w.base, err))
			if r.Bool() {
				w.w.(interface{ Abort() error }).Abort()
				ops = append(ops, fmt.Sprintf("abort-after-close-again(%s)", w.base))
			}
		case op == 9 && len(writers) > 0: // a stale Close on a writer that was aborted: whatever it returns, nothing changes
			w := core.Pick(r, writers)
			if w.state != "aborted" {
				continue
			}
			err := w.w.Close()
			ops = append(ops, fmt.Sprintf("close-after-abort(%s)=%v", w.base, err))
		case op == 7 && len(writers) > 0: // abort after close is a no-op
			w := core.Pick(r, writers)
			if w.state != "closed" {
				continue
			}
			w.w.(interface{ Abort() error }).Abort()
			ops = append(ops, fmt.Sprintf("abort-after-close(%s)", w.base))
		case op == 8 && len(writers) > 0: // tombstone
			w := core.Pick(r, writers)
			if w.state == "retired" {
				continue
			}
			// only tombstone a pointer that still belongs to this writer's life (the name may have been reused)
			owner := true
			for _, o := range writers {
				if o != w && o.base == w.base && (o.state == "open" || o.state == "closed") && indexOfWriter(writers, o) > indexOfWriter(writers, w) {
					owner = false
				}
			}
			if !owner {
				continue
			}
			err := fs.TombstoneFile(ctx, []byte(w.ptr))
			ops = append(ops, fmt.Sprintf("tombstone(%s,state=%s)=%v", w.base, w.state, err))
			if err != nil {
				fail("tombstone-failed", "TombstoneFile: "+err.Error())
				return
			}
			if _, ok := dat[w.base]; ok {
				hitLive++
			}
			delete(dat, w.base)
			delete(tmp, w.base)
			if w.state == "open" {
				w.state = "retired"
			} else {
				w.state = "gone"
			}
		default: // scan
			if !scanWith(nil) {
				return
			}
		}
		if !check(ops[len(ops)-1]) {
			return
		}
	}
	rc.Res.Eval(1)
	rc.Res.Count("sequences", 1)
	rc.Res.Count("collisions_forced", int64(redraws))
	if redraws > 0 || hitLive > 0 {
		rc.Res.Nontrivial(strings.Join(ops, ";"))
	}
	if i < 2 && s == 0 {
		rc.Res.Sample(map[string]any{"ops": ops, "pool": pool, "redraws": redraws})
	}
}

func indexOfWriter(ws []*c16Writer, w *c16Writer) int {
	for i, x := range ws {
		if x == w {
			return i
		}
	}
	return -1
}

func keysOf(m map[string]bool) []string {
	var ks []string
	for k := range m {
		ks = append(ks, filepath.Base(k))
	}
	sort.Strings(ks)
	return ks
}

// c16Concurrent: goroutine per writer; final state and per-pointer content.
func c16Concurrent(rc *RunCtx, i, s int, r *core.Rand) {
	dir, err := os.MkdirTemp(scratchDir("c16"), c16DirPattern(r))
	if err != nil {
		rc.Res.Inconc("mkdtemp: " + err.Error())
		return
	}
	defer os.RemoveAll(dir)
	fs := bs.NewFileSystemDataStore(dir)
	pool := []string{"n0", "n1", "n2"}[:r.Range(1, 3)]
	var dmu sync.Mutex
	fresh := 0
	dr := r.Split("draw")
	fs.VerifSetFileNameDraw(func() string {
		dmu.Lock()
		defer dmu.Unlock()
		if dr.Chance(0.7) {
			return core.Pick(dr, pool)
		}
		fresh++
		return fmt.Sprintf("fresh%d", fresh)
	})
	n := r.Range(2, 6)
	type outcome struct {
		ptr   string
		data  []byte
		final string // published, aborted, tombstoned
		err   string
	}
	outs := make([]*outcome, n*3)
	var wg sync.WaitGroup
	ctx := context.Background()
	for g := 0; g < n; g++ {
		gr := r.Split("g", g)
		wg.Add(1)
		go func(g int) {
			defer wg.Done()
			for k := 0; k < 3; k++ {
				o := &outcome{}
				outs[g*3+k] = o
				w, ptr, err := fs.CreateFile(ctx)
				if err != nil {
					o.err = "create: " + err.Error()
					return
				}
				o.ptr = string(ptr)
				data := validBloomFile(gr, fmt.Sprintf("g%dk%d", g, k))
				for off := 0; off < len(data); {
					end := off + gr.Range(1, len(data)-off)
					if _, err := w.Write(data[off:end]); err != nil {
						o.err = "write: " + err.Error()
						return
					}
					off = end
				}
				// TombstoneFile is left to the sequential variant: a pointer is a name, and a
				// tombstone racing with a CreateFile that legitimately reuses the freed name
				// removes the new writer's .tmp (its Close then fails honestly); that is name
				// reuse, not a breach of the specification, so it must not raise an alarm here.
				switch gr.Intn(3) {
				case 0:
					if err := w.(interface{ Abort() error }).Abort(); err != nil {
						o.err = "abort: " + err.Error()
					}
					o.final = "aborted"
				default:
					if err := w.Close(); err != nil {
						o.err = "close: " + err.Error()
						return
					}
					o.data, o.final = data, "published"
				}
			}
		}(g)
	}
	wg.Wait()
	rc.Res.Eval(1)
	rc.Res.Count("sequences", 1)
	rc.Res.Count("concurrent_sequences", 1)
	want := map[string]int64{}
	seen := map[string]bool{}
	for _, o := range outs {
		if o == nil {
			continue
		}
		if o.err != "" {
			rc.Violate(i, "concurrent-op-failed", "", o.err, map[string]any{"listing": listDir(dir)})
			return
		}
		if o.final == "published" {
			if seen[o.ptr] {
				rc.Violate(i, "pointer-returned-twice", "", "two live writers were given the pointer "+o.ptr, nil)
				return
			}
			seen[o.ptr] = true
			want[filepath.Base(o.ptr)] = int64(len(o.data))
			got, err := os.ReadFile(o.ptr)
			if err != nil || !bytes.Equal(got, o.data) {
				rc.Violate(i, "published-bytes-changed", "", fmt.Sprintf("%s does not hold the bytes its writer wrote (err=%v, %d vs %d bytes)", o.ptr, err, len(got), len(o.data)), map[string]any{"listing": listDir(dir)})
				return
			}
		}
	}
	got := listDir(dir)
	if len(got) != len(want) {
		rc.Violate(i, "directory-differs-from-model", "", fmt.Sprintf("after concurrent writers: directory has %v, expected exactly the published files %v", got, want), nil)
		return
	}
	rc.Res.Nontrivial("conc", i, s, n)
}
