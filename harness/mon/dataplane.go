package mon

import (
	"bytes"
	"context"
	"encoding/json"
	"fmt"
	"sort"
	"strings"
	"unicode/utf8"

	bs "github.com/danthegoodman1/bloomsearch"

	"verifharness/core"
	"verifharness/refsem"
	"verifharness/stores"
	"verifharness/world"
)

// queryJSON renders a query for witnesses.
func queryJSON(q *bs.Query) string {
	b, err := json.Marshal(q)
	if err != nil {
		return fmt.Sprintf("%#v", q)
	}
	return string(b)
}

func hasUnknownBloom(e *bs.BloomExpression) bool {
	if e == nil {
		return false
	}
	switch e.ExpressionType {
	case bs.BloomExpressionCondition:
		if e.Condition == nil {
			return false
		}
		switch e.Condition.Type {
		case bs.BloomField, bs.BloomToken, bs.BloomFieldToken:
			return false
		}
		return true
	case bs.BloomExpressionAnd, bs.BloomExpressionOr:
		for i := range e.Children {
			if hasUnknownBloom(&e.Children[i]) {
				return true
			}
		}
		return false
	}
	return true
}

// bloomOnFilters evaluates a bloom tree against real filter bits (absent
// filters cannot disqualify).
func bloomOnFilters(f *bs.BloomFilters, e *bs.BloomExpression) bool {
	if e == nil {
		return true
	}
	switch e.ExpressionType {
	case bs.BloomExpressionCondition:
		if e.Condition == nil {
			return true
		}
		c := e.Condition
		switch c.Type {
		case bs.BloomField:
			return f.FieldBloomFilter == nil || f.FieldBloomFilter.TestString(c.Field)
		case bs.BloomToken:
			return f.TokenBloomFilter == nil || f.TokenBloomFilter.TestString(c.Token)
		case bs.BloomFieldToken:
			return f.FieldTokenBloomFilter == nil || f.FieldTokenBloomFilter.TestString(refsem.PairKey(c.Field, c.Token))
		}
		return false
	case bs.BloomExpressionAnd:
		for i := range e.Children {
			if !bloomOnFilters(f, &e.Children[i]) {
				return false
			}
		}
		return true
	case bs.BloomExpressionOr:
		for i := range e.Children {
			if bloomOnFilters(f, &e.Children[i]) {
				return true
			}
		}
		return false
	}
	return false
}

// dpCase is one data-plane scenario with its derived views.
type dpCase struct {
	w     *world.World
	d     *world.Descriptor
	inv   []*world.FileInv
	log   *stores.Log
	byVid map[string]*world.BlockInv // vid -> the block holding it
}

func buildDP(rc *RunCtx, i int, o world.BuildOpts, instrument bool) (*dpCase, error) {
	r := rc.CaseRand(i)
	caseID := fmt.Sprintf("%s%d_%d", strings.ToLower(rc.ID), rc.Seed, i)
	var log *stores.Log
	w, d, err := world.BuildWith(r, caseID, o, func(w *world.World) {
		if instrument {
			log = stores.NewLog(&stores.Clock{})
			w.Instrument(log)
		}
	})
	if err != nil {
		return nil, err
	}
	inv, err := w.Inventory()
	if err != nil {
		w.Close()
		return nil, fmt.Errorf("inventory: %w", err)
	}
	c := &dpCase{w: w, d: d, inv: inv, log: log, byVid: map[string]*world.BlockInv{}}
	d.Files = len(inv)
	for _, f := range inv {
		d.Blocks += len(f.Blocks)
		for _, b := range f.Blocks {
			for _, v := range b.VIDs {
				c.byVid[v] = b
			}
		}
	}
	return c, nil
}

// conservation: the inventory holds exactly the ledger's stored rows.
func (c *dpCase) conservation() string {
	have := map[string]int{}
	for _, f := range c.inv {
		for _, b := range f.Blocks {
			for _, v := range b.VIDs {
				have[v]++
			}
		}
	}
	for vid, rec := range c.w.Rows {
		if have[vid] != rec.Count {
			return fmt.Sprintf("row %s stored %d times, found %d times in the files", vid, rec.Count, have[vid])
		}
	}
	for vid := range have {
		if _, ok := c.w.Rows[vid]; !ok {
			return fmt.Sprintf("files hold a row %q that was never ingested", vid)
		}
	}
	return ""
}

func nQueries(tier string, quick, thorough int) int {
	if tier == "thorough" {
		return thorough
	}
	return quick
}

// expected computes, for a query, the stored rows that match it (bloom and
// regex) and the subset whose own facts also satisfy the prefilter.
func (c *dpCase) expected(q *bs.Query) (match map[string]*world.RowRec, required map[string]*world.RowRec) {
	match, required = map[string]*world.RowRec{}, map[string]*world.RowRec{}
	var pf *bs.QueryPrefilter
	if q != nil {
		pf = q.Prefilter
	}
	for _, rec := range c.w.StoredRecs() {
		if !rec.View.Match(q) {
			continue
		}
		match[rec.VID] = rec
		if refsem.RowSatisfies(rec.Facts(), pf) {
			required[rec.VID] = rec
		}
	}
	return
}

func regexOf(q *bs.Query) *bs.RegexExpression {
	if q == nil || q.Regex == nil {
		return nil
	}
	return q.Regex.Expression
}

func hasPrefilter(q *bs.Query) bool {
	return q != nil && q.Prefilter != nil && q.Prefilter.Expression != nil
}

func init() {
	Register(&Check{
		Spec: core.Spec{ID: "C01", Level: "exploration",
			Rule:        "case = generated scenario (1-3 engine configs sharing stores; ingest/flush/merge history) x generated queries; a query is non-trivial when at least one stored row is required by the reference semantics (matches bloom+regex and its own partition/minmax facts satisfy the prefilter); distinct = distinct (scenario, query JSON)",
			Assumptions: []string{"reference semantics written from README/FILE_FORMAT.md over encoding/json (harness/refsem)", "field:token membership key = path + \"::\" + token", "regex patterns drawn from a fixed family"},
			Floors:      map[string]int64{"queries": 50, "rows_required": 20}},
		Cases: func(t string) int { return nQueries(t, 128, 1200) },
		Run:   runC01,
	})
	Register(&Check{
		Spec: core.Spec{ID: "C02", Level: "exploration",
			Rule:        "same scenario stream as C01 with high false-positive rates over-represented; a query is non-trivial when some stored row does not match it while its block is a candidate (so only row verification keeps it out) or a prefilter is present; distinct = distinct (scenario, query JSON)",
			Assumptions: []string{"reference semantics in harness/refsem", "must(block)=strict evaluation over block metadata, may(block)=no referenced metadata missing"},
			Floors:      map[string]int64{"queries": 50, "rows_returned": 20}},
		Cases: func(t string) int { return nQueries(t, 96, 1200) },
		Run:   runC02,
	})
}

func runC01(rc *RunCtx, i int) {
	r := rc.CaseRand(i)
	o := world.BuildOpts{MoreMerge: i%3 == 0, HighFPR: i%2 == 0, ExtFiles: i%5 == 0, BigRegion: i%80 == 5, MetaIgnoresPrefilter: i%7 == 3}
	c, err := buildDP(rc, i, o, false)
	if err != nil {
		rc.Violate(i, "scenario-failed", "", "fault-free scenario failed: "+err.Error(), nil)
		return
	}
	defer c.w.Close()
	rc.Res.Count("scenarios", 1)
	rc.Res.Count("files", int64(len(c.inv)))
	rc.Res.Count("blocks", int64(c.d.Blocks))
	rc.Res.Count("rows_stored", int64(c.d.Rows))
	rc.Res.Count("stores."+string(c.w.Kind), 1)
	rc.Res.Count("tokenizer."+c.w.Tok.Name, 1)
	for _, x := range c.d.Ext {
		rc.Res.Count("ext_files", 1)
		rc.Res.Count("ext_blocks_without_filters", int64(x.NoBlockFilt))
		rc.Res.Count("ext_blocks_one_filter_absent", int64(x.Dropped))
		if x.NoFileFilt {
			rc.Res.Count("ext_files_without_file_filters", 1)
		}
		if x.RegionBytes > 4<<20 {
			rc.Res.Count("ext_files_multi_chunk_region", 1)
		}
	}
	if msg := c.conservation(); msg != "" {
		rc.Violate(i, "stored-rows-lost", "", msg, c.d)
		return
	}
	facts := c.w.Facts()
	qr := r.Split("queries")
	nq := nQueries(rc.Tier, 40, 60)
	check := func(k int, q *bs.Query, sweep bool) {
		e := c.w.Eng[qr.Intn(len(c.w.Eng))]
		rc.Res.Eval(1)
		rc.Res.Count("queries", 1)
		ctx, cancel := context.WithTimeout(context.Background(), core.Patience)
		res := world.RunQuery(ctx, e, q)
		cancel()
		if refsem.CheckRegex(regexOf(q)) == refsem.RegexInvalid {
			rc.Res.Count("queries_invalid_regex", 1)
			if res.QErr == nil {
				rc.Res.Note("query with invalid/unknown regex tree was accepted: " + queryJSON(q))
			}
			return
		}
		if res.QErr != nil {
			rc.Violate(i, "query-refused", "", "Query returned an error for a valid query: "+res.QErr.Error(), map[string]any{"query": queryJSON(q), "scenario": c.d})
			return
		}
		if res.Err != nil {
			rc.Violate(i, "query-error-on-healthy-stores", "", "Results.Err = "+res.Err.Error(), map[string]any{"query": queryJSON(q), "scenario": c.d})
			return
		}
		_, required := c.expected(q)
		rc.Res.Count("rows_required", int64(len(required)))
		if len(required) > 0 {
			rc.Res.Nontrivial(c.d.Case, queryJSON(q))
			if hasPrefilter(q) {
				rc.Res.Count("queries_nontrivial_with_prefilter", 1)
			}
			if regexOf(q) != nil {
				rc.Res.Count("queries_nontrivial_with_regex", 1)
			}
		}
		var missing []string
		for vid, rec := range required {
			if res.VIDs[vid] < rec.Count {
				missing = append(missing, vid)
			}
		}
		if len(missing) > 0 {
			sort.Strings(missing)
			rec := required[missing[0]]
			blk := c.byVid[missing[0]]
			var bm any
			if blk != nil {
				bm = map[string]any{"file": blk.File, "block": blk.Index, "partition": blk.Meta.PartitionID, "minmax": blk.Meta.MinMaxIndexes, "rows": blk.Meta.Rows}
			}
			rc.Violate(i, "false-negative", c01Signature(q, rec), fmt.Sprintf("%d stored matching row(s) not returned, e.g. %s", len(missing), core.Trunc(string(rec.JSON), 400)),
				map[string]any{"query": queryJSON(q), "row": string(rec.JSON), "row_partition": rec.Part, "row_indexed_keys": rec.Keys, "block": bm, "scenario": c.d, "returned": len(res.Rows), "entry_sweep": sweep})
		}
		if !sweep && k < 2 && i < 2 {
			rc.Res.Sample(map[string]any{"scenario": c.d, "query": queryJSON(q), "required": len(required), "returned": len(res.Rows)})
		}
	}
	for k := 0; k < nq; k++ {
		q := facts.Query(qr)
		if k == 0 {
			q = nil // the nil query matches everything
		}
		check(k, q, false)
	}
	// Entry sweep: every distinct index entry the stored rows produce (field
	// paths, tokens, field:token pairs; a PRNG sample beyond the cap) is looked
	// up on its own, so a row lost to exactly one damaged filter entry cannot
	// hide behind the sampling of the generated queries.
	sr := r.Split("sweep")
	capT, capF, capP := nQueries(rc.Tier, 60, 300), nQueries(rc.Tier, 20, 100), nQueries(rc.Tier, 60, 300)
	for _, t := range sampleStrings(sr, facts.Tokens, capT) {
		if utf8.ValidString(t) {
			rc.Res.Count("sweep_token_queries", 1)
			check(-1, bs.NewQuery().Token(t).Build(), true)
		}
	}
	for _, f := range sampleStrings(sr, facts.Fields, capF) {
		if utf8.ValidString(f) && f != "" {
			rc.Res.Count("sweep_field_queries", 1)
			check(-1, bs.NewQuery().Field(f).Build(), true)
		}
	}
	pidx := sr.Perm(len(facts.Pairs))
	for n, j := range pidx {
		if n >= capP {
			break
		}
		p := facts.Pairs[j]
		if utf8.ValidString(p[0]) && utf8.ValidString(p[1]) && p[0] != "" {
			rc.Res.Count("sweep_pair_queries", 1)
			check(-1, bs.NewQuery().FieldToken(p[0], p[1]).Build(), true)
		}
	}
}

func sampleStrings(r *core.Rand, all []string, n int) []string {
	if len(all) <= n {
		return all
	}
	out := make([]string, 0, n)
	for _, j := range r.Perm(len(all))[:n] {
		out = append(out, all[j])
	}
	return out
}

// c01Signature classifies a false negative structurally (for known findings).
func c01Signature(q *bs.Query, rec *world.RowRec) string {
	return ""
}

func runC02(rc *RunCtx, i int) {
	r := rc.CaseRand(i)
	o := world.BuildOpts{MoreMerge: i%3 == 1, HighFPR: true, ExtFiles: i%4 == 0, MetaIgnoresPrefilter: i%4 == 2}
	c, err := buildDP(rc, i, o, false)
	if err != nil {
		rc.Violate(i, "scenario-failed", "", "fault-free scenario failed: "+err.Error(), nil)
		return
	}
	defer c.w.Close()
	rc.Res.Count("scenarios", 1)
	rc.Res.Count("blocks", int64(c.d.Blocks))
	rc.Res.Count("stores."+string(c.w.Kind), 1)
	if msg := c.conservation(); msg != "" {
		rc.Violate(i, "stored-rows-mismatch", "", msg, c.d)
		return
	}
	facts := c.w.Facts()
	qr := r.Split("queries")
	nq := nQueries(rc.Tier, 40, 60)
	var qs []*bs.Query
	for k := 0; k < nq; k++ {
		qs = append(qs, facts.Query(qr))
	}
	// entry sweep (as in C01, smaller): single-condition lookups of entries the stored rows
	// really produce, so exactness is also checked entry by entry (number and bool literals,
	// case-folded words, tokens that only one row has)
	sr := r.Split("sweep")
	for _, t := range sampleStrings(sr, facts.Tokens, nQueries(rc.Tier, 40, 200)) {
		if utf8.ValidString(t) {
			qs = append(qs, bs.NewQuery().Token(t).Build())
			rc.Res.Count("sweep_queries", 1)
		}
	}
	for _, f := range sampleStrings(sr, facts.Fields, nQueries(rc.Tier, 12, 60)) {
		if utf8.ValidString(f) && f != "" {
			qs = append(qs, bs.NewQuery().Field(f).Build())
			rc.Res.Count("sweep_queries", 1)
		}
	}
	for n, j := range sr.Perm(len(facts.Pairs)) {
		if n >= nQueries(rc.Tier, 40, 200) {
			break
		}
		if p := facts.Pairs[j]; utf8.ValidString(p[0]) && utf8.ValidString(p[1]) && p[0] != "" {
			qs = append(qs, bs.NewQuery().FieldToken(p[0], p[1]).Build())
			rc.Res.Count("sweep_queries", 1)
		}
	}
	for k, q := range qs {
		e := c.w.Eng[qr.Intn(len(c.w.Eng))]
		if refsem.CheckRegex(regexOf(q)) == refsem.RegexInvalid {
			continue
		}
		rc.Res.Eval(1)
		rc.Res.Count("queries", 1)
		ctx, cancel := context.WithTimeout(context.Background(), core.Patience)
		res := world.RunQuery(ctx, e, q)
		cancel()
		if res.QErr != nil || res.Err != nil {
			rc.Violate(i, "query-error-on-healthy-stores", "", fmt.Sprintf("QErr=%v Err=%v", res.QErr, res.Err), map[string]any{"query": queryJSON(q), "scenario": c.d})
			continue
		}
		rc.Res.Count("rows_returned", int64(len(res.Rows)))
		match, _ := c.expected(q)
		wit := func() map[string]any { return map[string]any{"query": queryJSON(q), "scenario": c.d} }
		// (i) every returned row is a stored row that matches; content equals what was stored
		bad := false
		for _, row := range res.Rows {
			vid := world.VidOfRow(row)
			rec, ok := c.w.Rows[vid]
			if !ok || rec.Count == 0 {
				rc.Violate(i, "foreign-row", "", fmt.Sprintf("returned row with _vid %q was never stored", vid), wit())
				bad = true
				break
			}
			if _, ok := match[vid]; !ok {
				w := wit()
				w["row"] = string(rec.JSON)
				rc.Violate(i, "non-matching-row-returned", "", "a returned row does not satisfy the query under the reference semantics (bloom false positive leaked or row verification skipped): "+core.Trunc(string(rec.JSON), 300), w)
				bad = true
				break
			}
		}
		if bad {
			continue
		}
		// (ii) no row more often than stored
		for vid, n := range res.VIDs {
			if n > c.w.Rows[vid].Count {
				rc.Violate(i, "row-duplicated", "", fmt.Sprintf("row %s returned %d times, stored %d times", vid, n, c.w.Rows[vid].Count), wit())
				bad = true
				break
			}
		}
		if bad {
			continue
		}
		nonMatchingInCandidate := len(match) < len(c.w.StoredRecs())
		if !hasPrefilter(q) {
			// (iii) exact equality
			for vid, rec := range match {
				if res.VIDs[vid] != rec.Count {
					w := wit()
					w["row"] = string(rec.JSON)
					rc.Violate(i, "result-not-exact", "", fmt.Sprintf("without a prefilter the result must equal the matching rows: row %s returned %d times, stored %d", vid, res.VIDs[vid], rec.Count), w)
					bad = true
					break
				}
			}
			if nonMatchingInCandidate && len(res.Rows) > 0 {
				rc.Res.Nontrivial(c.d.Case, queryJSON(q))
			}
			continue
		}
		// (iv) block-granular: per block all-or-none of its matching rows, must => in, in => may
		rc.Res.Count("queries_with_prefilter", 1)
		rc.Res.Nontrivial(c.d.Case, queryJSON(q))
		for _, f := range c.inv {
			for _, b := range f.Blocks {
				m, ret := 0, 0
				seen := map[string]bool{}
				for _, vid := range b.VIDs {
					if seen[vid] {
						continue
					}
					seen[vid] = true
					if rec, ok := match[vid]; ok {
						m += rec.Count
						ret += res.VIDs[vid]
					}
				}
				if m == 0 {
					continue
				}
				must := refsem.BlockEval(&b.Meta, q.Prefilter, refsem.Must)
				may := refsem.BlockEval(&b.Meta, q.Prefilter, refsem.May)
				bw := func() map[string]any {
					w := wit()
					w["block"] = map[string]any{"file": b.File, "index": b.Index, "partition": b.Meta.PartitionID, "minmax": b.Meta.MinMaxIndexes, "matching": m, "returned": ret}
					return w
				}
				switch {
				case ret != 0 && ret != m:
					rc.Violate(i, "partial-block", "", fmt.Sprintf("a block contributed %d of its %d matching rows", ret, m), bw())
					bad = true
				case must && ret == 0:
					rc.Violate(i, "satisfying-block-excluded", "", "a block whose metadata satisfies the prefilter returned none of its matching rows", bw())
					bad = true
				case !may && ret > 0:
					rc.Violate(i, "block-with-missing-metadata-included", "", "a block lacking the partition/minmax metadata a condition references contributed rows", bw())
					bad = true
				}
				if must {
					rc.Res.Count("blocks_must", 1)
				} else if !may {
					rc.Res.Count("blocks_must_not", 1)
				} else {
					rc.Res.Count("blocks_free", 1)
				}
				if bad {
					break
				}
			}
			if bad {
				break
			}
		}
		if k < 1 && i < 3 {
			rc.Res.Sample(map[string]any{"scenario": c.d, "query": queryJSON(q), "matching": len(match), "returned": len(res.Rows)})
		}
	}
}

var _ = bytes.Equal
