package mon

import (
	"bytes"
	"encoding/json"
	"fmt"
	"reflect"
	"sort"

	bs "github.com/danthegoodman1/bloomsearch"

	"verifharness/core"
	"verifharness/extfmt"
	"verifharness/refsem"
	"verifharness/world"
)

func init() {
	Register(&Check{
		Spec: core.Spec{ID: "C17", Level: "exploration",
			Rule:        "case = generated scenario; every file left in the stores after its flush/merge history is checked byte-for-byte against an independent format parser and the ledger; a file is non-trivial when it has >= 1 block with >= 1 row; distinct = distinct file content hashes",
			Assumptions: []string{"independent parser harness/extfmt written from FILE_FORMAT.md", "engines sharing a store share a tokenizer (entry counts of copied blocks keep the writer's tokenizer)"},
			Floors:      map[string]int64{"files_checked": 30, "blocks_checked": 60}},
		Cases: func(t string) int { return nQueries(t, 96, 4000) },
		Run:   runC17,
	})
	Register(&Check{
		Spec: core.Spec{ID: "C18", Level: "exploration",
			Rule:        "case = generated scenario; for every block and file left in the stores: every reference-semantics entry (field path, token, field:token pair) of every row tests positive in the block's and the file's filters, minmax key sets/ranges and partition ids match the ledger; non-trivial = block with >= 1 indexed entry; distinct = distinct (file, block) contents",
			Assumptions: []string{"field:token membership key = path + \"::\" + token", "reference walker/tokeniser in harness/refsem"},
			Floors:      map[string]int64{"blocks_checked": 60, "entries_tested": 2000}},
		Cases: func(t string) int { return nQueries(t, 96, 4000) },
		Run:   runC18,
	})
}

func metaBlocksJSON(v any) string {
	b, _ := json.Marshal(v)
	return string(b)
}

func runC17(rc *RunCtx, i int) {
	o := world.BuildOpts{MoreMerge: i%2 == 0 || i%8 == 5, BigBlocks: i%8 == 5}
	c, err := buildDP(rc, i, o, false)
	if err != nil {
		rc.Violate(i, "scenario-failed", "", "fault-free scenario failed: "+err.Error(), nil)
		return
	}
	defer c.w.Close()
	rc.Res.Count("scenarios", 1)
	rc.Res.Count("stores."+string(c.w.Kind), 1)
	for _, f := range c.inv {
		rc.Res.Eval(1)
		raw, err := c.w.FileBytes(f.Ptr)
		if err != nil {
			rc.Violate(i, "file-unreadable", "", err.Error(), c.d)
			continue
		}
		wit := func(extra any) map[string]any {
			return map[string]any{"scenario": c.d, "file": f.Ptr, "size": len(raw), "detail": extra}
		}
		// 1. the public parser accepts it
		md, size, err := bs.ReadFileMetadata(bytes.NewReader(raw))
		if err != nil {
			rc.Violate(i, "ReadFileMetadata-failed", "", "a file written by the engine does not parse: "+err.Error(), wit(nil))
			continue
		}
		if size != int64(len(raw)) {
			rc.Violate(i, "file-size-wrong", "", fmt.Sprintf("ReadFileMetadata reports size %d, file has %d bytes", size, len(raw)), wit(nil))
		}
		// 2. the independent parser agrees field for field
		ft, err := extfmt.ParseFooter(raw)
		if err != nil {
			rc.Violate(i, "independent-parse-failed", "", "independent footer parser rejects the file: "+err.Error(), wit(nil))
			continue
		}
		if a, b := metaBlocksJSON(md.DataBlocks), metaBlocksJSON(ft.Meta.DataBlocks); a != b {
			rc.Violate(i, "metadata-disagreement", "", "ReadFileMetadata and the independent parser disagree on the block metadata", wit(map[string]string{"public": a, "independent": b}))
			continue
		}
		if md.BlockFilterRegionOffset != ft.Meta.BlockFilterRegionOffset || md.BlockFilterRegionSize != ft.Meta.BlockFilterRegionSize ||
			md.BloomFalsePositiveRate != ft.Meta.BloomFalsePositiveRate || md.BloomEntryCounts != bs.BloomEntryCounts(ft.Meta.BloomEntryCounts) {
			rc.Violate(i, "metadata-disagreement", "", "file-level metadata fields differ between the two parsers", wit(nil))
			continue
		}
		// the MetaStore's copy describes the same file
		if a, b := metaBlocksJSON(f.Meta.DataBlocks), metaBlocksJSON(md.DataBlocks); a != b {
			rc.Violate(i, "metastore-metadata-differs", "", "metadata committed to the MetaStore differs from the file's own footer", wit(map[string]string{"metastore": a, "footer": b}))
			continue
		}
		// 3. layout: row data tiles [0, region), sections tile the region in block order, footer follows
		off := 0
		bad := false
		for bi, b := range md.DataBlocks {
			if b.RowDataOffset != off {
				rc.Violate(i, "row-data-not-contiguous", "", fmt.Sprintf("block %d row data at %d, expected %d", bi, b.RowDataOffset, off), wit(metaBlocksJSON(md.DataBlocks)))
				bad = true
				break
			}
			off += b.RowDataSize
		}
		if bad {
			continue
		}
		if off != md.BlockFilterRegionOffset {
			rc.Violate(i, "region-not-after-row-data", "", fmt.Sprintf("row data ends at %d, region starts at %d", off, md.BlockFilterRegionOffset), wit(nil))
			continue
		}
		soff := md.BlockFilterRegionOffset
		for bi, b := range md.DataBlocks {
			if b.BloomFilterOffset != soff {
				rc.Violate(i, "sections-not-in-block-order", "", fmt.Sprintf("block %d filter section at %d, expected %d", bi, b.BloomFilterOffset, soff), wit(metaBlocksJSON(md.DataBlocks)))
				bad = true
				break
			}
			soff += b.BloomFilterSize
		}
		if bad {
			continue
		}
		if soff != md.BlockFilterRegionOffset+md.BlockFilterRegionSize {
			rc.Violate(i, "region-size-wrong", "", fmt.Sprintf("sections end at %d, region ends at %d", soff, md.BlockFilterRegionOffset+md.BlockFilterRegionSize), wit(nil))
			continue
		}
		if int64(soff)+int64(ft.Meta.FileFilterSectionSize) != ft.MetaOffset {
			rc.Violate(i, "footer-not-adjacent", "", fmt.Sprintf("region ends at %d, file filter section of %d bytes, metadata at %d", soff, ft.Meta.FileFilterSectionSize, ft.MetaOffset), wit(nil))
			continue
		}
		// file-level filters decoded by the public parser are bit-equal to the section on disk
		fsec, err := extfmt.ParseSection(ft.FilterSection)
		if err != nil {
			rc.Violate(i, "file-filter-section-invalid", "", err.Error(), wit(nil))
			continue
		}
		pub := [3][]byte{extfmt.FilterBytes(md.BloomFilters.FieldBloomFilter), extfmt.FilterBytes(md.BloomFilters.TokenBloomFilter), extfmt.FilterBytes(md.BloomFilters.FieldTokenBloomFilter)}
		for k := 0; k < 3; k++ {
			if !bytes.Equal(pub[k], fsec.Raw[k]) {
				rc.Violate(i, "file-filters-differ", "", fmt.Sprintf("file-level filter %d returned by ReadFileMetadata is not the one on disk", k), wit(nil))
				bad = true
			}
		}
		if bad {
			continue
		}
		fileEntries := refsem.NewEntries()
		nonTrivial := false
		for bi := range md.DataBlocks {
			b := md.DataBlocks[bi]
			inv := f.Blocks[bi]
			rc.Res.Count("blocks_checked", 1)
			disk := raw[b.RowDataOffset : b.RowDataOffset+b.RowDataSize]
			bw := func(extra any) map[string]any {
				return wit(map[string]any{"block": bi, "meta": b, "extra": extra})
			}
			if !b.HasRowDataHash || extfmt.CRC32C(disk) != b.RowDataHash {
				rc.Violate(i, "row-data-hash-wrong", "", fmt.Sprintf("block %d: CRC32C of on-disk bytes %08x, metadata says %08x (has=%v)", bi, extfmt.CRC32C(disk), b.RowDataHash, b.HasRowDataHash), bw(nil))
				bad = true
				break
			}
			codec := string(b.Compression)
			if codec == "" {
				rc.Violate(i, "compression-not-explicit", "", fmt.Sprintf("block %d written with an empty compression type", bi), bw(nil))
				bad = true
				break
			}
			plain, err := extfmt.Decompress(codec, disk)
			if err != nil {
				rc.Violate(i, "row-data-undecodable", "", fmt.Sprintf("block %d does not decompress with its declared codec %q: %v", bi, codec, err), bw(nil))
				bad = true
				break
			}
			if len(plain) != b.UncompressedSize {
				rc.Violate(i, "uncompressed-size-wrong", "", fmt.Sprintf("block %d decompresses to %d bytes, metadata says %d", bi, len(plain), b.UncompressedSize), bw(nil))
				bad = true
				break
			}
			if !bytes.Equal(plain, inv.RowData) {
				rc.Violate(i, "ReadDataBlockRowData-differs", "", fmt.Sprintf("block %d: ReadDataBlockRowData does not return the decompressed on-disk bytes", bi), bw(nil))
				bad = true
				break
			}
			rows, err := extfmt.SplitRows(plain)
			if err != nil || len(rows) != b.Rows || len(rows) != len(inv.RowJSON) {
				rc.Violate(i, "row-count-wrong", "", fmt.Sprintf("block %d: %d rows on disk (err %v), metadata says %d, scanner yielded %d", bi, len(rows), err, b.Rows, len(inv.RowJSON)), bw(nil))
				bad = true
				break
			}
			blockEntries := refsem.NewEntries()
			for ri, rowb := range rows {
				if !bytes.Equal(rowb, inv.RowJSON[ri]) {
					rc.Violate(i, "scanner-differs", "", fmt.Sprintf("block %d row %d: BlockRowScanner yields different bytes than on disk", bi, ri), bw(nil))
					bad = true
					break
				}
				vid := world.VidOfJSON(rowb)
				rec := c.w.Rows[vid]
				if rec == nil || !bytes.Equal(rec.JSON, rowb) {
					rc.Violate(i, "stored-row-differs", "", fmt.Sprintf("block %d row %d (%s) is not the marshaled row that was ingested", bi, ri, vid), bw(string(rowb)))
					bad = true
					break
				}
				blockEntries.AddDoc(rec.Doc, c.w.Tok.Ref)
				nonTrivial = true
			}
			if bad {
				break
			}
			want := bs.BloomEntryCounts{Fields: len(blockEntries.Fields), Tokens: len(blockEntries.Tokens), FieldTokens: len(blockEntries.Pairs)}
			if b.BloomEntryCounts != want {
				rc.Violate(i, "block-entry-counts-wrong", "", fmt.Sprintf("block %d: metadata counts %+v, measured %+v", bi, b.BloomEntryCounts, want), bw(nil))
				bad = true
				break
			}
			fileEntries.Union(blockEntries)
			// the public section reader returns exactly the section on disk
			sec := raw[b.BloomFilterOffset : b.BloomFilterOffset+b.BloomFilterSize]
			psec, err := extfmt.ParseSection(sec)
			if err != nil {
				rc.Violate(i, "block-filter-section-invalid", "", fmt.Sprintf("block %d: %v", bi, err), bw(nil))
				bad = true
				break
			}
			bf, err := bs.ReadDataBlockBloomFilters(bytes.NewReader(raw), b)
			if err != nil {
				rc.Violate(i, "ReadDataBlockBloomFilters-failed", "", fmt.Sprintf("block %d: %v", bi, err), bw(nil))
				bad = true
				break
			}
			got := [3][]byte{extfmt.FilterBytes(bf.FieldBloomFilter), extfmt.FilterBytes(bf.TokenBloomFilter), extfmt.FilterBytes(bf.FieldTokenBloomFilter)}
			for k := 0; k < 3; k++ {
				if !bytes.Equal(got[k], psec.Raw[k]) || psec.Raw[k] == nil {
					rc.Violate(i, "block-filters-differ", "", fmt.Sprintf("block %d filter %d: ReadDataBlockBloomFilters does not return the filter on disk (or it is absent)", bi, k), bw(nil))
					bad = true
				}
			}
			if bad {
				break
			}
		}
		if bad {
			continue
		}
		wantFile := bs.BloomEntryCounts{Fields: len(fileEntries.Fields), Tokens: len(fileEntries.Tokens), FieldTokens: len(fileEntries.Pairs)}
		if md.BloomEntryCounts != wantFile {
			rc.Violate(i, "file-entry-counts-wrong", "", fmt.Sprintf("file metadata counts %+v, measured union %+v", md.BloomEntryCounts, wantFile), wit(nil))
			continue
		}
		rc.Res.Count("files_checked", 1)
		if nonTrivial {
			rc.Res.Nontrivial(extfmt.CRC32C(raw), len(raw))
		}
		if i < 2 {
			rc.Res.Sample(map[string]any{"scenario": c.d.Case, "file": f.Ptr, "bytes": len(raw), "blocks": len(md.DataBlocks), "region": []int{md.BlockFilterRegionOffset, md.BlockFilterRegionSize}, "counts": md.BloomEntryCounts})
		}
	}
}

func runC18(rc *RunCtx, i int) {
	o := world.BuildOpts{MoreMerge: i%2 == 1}
	c, err := buildDP(rc, i, o, false)
	if err != nil {
		rc.Violate(i, "scenario-failed", "", "fault-free scenario failed: "+err.Error(), nil)
		return
	}
	defer c.w.Close()
	rc.Res.Count("scenarios", 1)
	rc.Res.Count("tokenizer."+c.w.Tok.Name, 1)
	for _, f := range c.inv {
		raw, err := c.w.FileBytes(f.Ptr)
		if err != nil {
			rc.Violate(i, "file-unreadable", "", err.Error(), c.d)
			continue
		}
		md, _, err := bs.ReadFileMetadata(bytes.NewReader(raw))
		if err != nil {
			rc.Violate(i, "ReadFileMetadata-failed", "", err.Error(), c.d)
			continue
		}
		fileEntries := refsem.NewEntries()
		for bi, inv := range f.Blocks {
			rc.Res.Eval(1)
			b := inv.Meta
			wit := func(extra any) map[string]any {
				return map[string]any{"scenario": c.d, "file": f.Ptr, "block": bi, "meta": b, "detail": extra}
			}
			bf, err := bs.ReadDataBlockBloomFilters(bytes.NewReader(raw), b)
			if err != nil {
				rc.Violate(i, "ReadDataBlockBloomFilters-failed", "", err.Error(), wit(nil))
				continue
			}
			if bf.FieldBloomFilter == nil || bf.TokenBloomFilter == nil || bf.FieldTokenBloomFilter == nil {
				rc.Violate(i, "block-filter-absent", "", "an engine-written block lacks one of its three filters", wit(nil))
				continue
			}
			ent := refsem.NewEntries()
			keyUnion := map[string]struct{}{}
			bad := false
			for _, vid := range inv.VIDs {
				rec := c.w.Rows[vid]
				if rec == nil {
					rc.Violate(i, "foreign-row", "", "block holds a row that was never ingested: "+vid, wit(nil))
					bad = true
					break
				}
				ent.AddDoc(rec.Doc, c.w.Tok.Ref)
				if rec.Part != b.PartitionID {
					rc.Violate(i, "partition-id-wrong", "", fmt.Sprintf("row %s has partition %q, its block says %q", vid, rec.Part, b.PartitionID), wit(string(rec.JSON)))
					bad = true
					break
				}
				for _, k := range rec.Keys {
					keyUnion[k] = struct{}{}
					idx, ok := b.MinMaxIndexes[k]
					if !ok {
						rc.Violate(i, "minmax-key-missing", "", fmt.Sprintf("row %s provides a numeric %q (%v, %T) but its block has no range for it", vid, k, rec.Row[k], rec.Row[k]), wit(string(rec.JSON)))
						bad = true
						break
					}
					if !rec.Indexed[k].CoveredBy(idx) {
						rc.Violate(i, "minmax-range-not-covering", "", fmt.Sprintf("row %s has %q = %v (%T) outside its block's range [%d, %d]", vid, k, rec.Row[k], rec.Row[k], idx.Min, idx.Max), wit(string(rec.JSON)))
						bad = true
						break
					}
				}
				if bad {
					break
				}
			}
			if bad {
				continue
			}
			var extra []string
			for k := range b.MinMaxIndexes {
				if _, ok := keyUnion[k]; !ok {
					extra = append(extra, k)
				}
			}
			if len(extra) > 0 {
				sort.Strings(extra)
				rc.Violate(i, "minmax-key-not-provided", "", fmt.Sprintf("block lists minmax keys %v that none of its rows provided numerically", extra), wit(nil))
				continue
			}
			n := 0
			for e := range ent.Fields {
				n++
				if !bf.FieldBloomFilter.TestString(e) {
					rc.Violate(i, "block-filter-missing-entry", "", fmt.Sprintf("field path %q of a row is not in the block's field filter", e), wit(nil))
					bad = true
					break
				}
			}
			for e := range ent.Tokens {
				n++
				if !bf.TokenBloomFilter.TestString(e) {
					rc.Violate(i, "block-filter-missing-entry", "", fmt.Sprintf("token %q of a row is not in the block's token filter", e), wit(nil))
					bad = true
					break
				}
			}
			for e := range ent.Pairs {
				n++
				if !bf.FieldTokenBloomFilter.TestString(e) {
					rc.Violate(i, "block-filter-missing-entry", "", fmt.Sprintf("pair %q of a row is not in the block's field:token filter", e), wit(nil))
					bad = true
					break
				}
			}
			rc.Res.Count("entries_tested", int64(n))
			if bad {
				continue
			}
			fileEntries.Union(ent)
			rc.Res.Count("blocks_checked", 1)
			if n > 0 {
				rc.Res.Nontrivial(f.Ptr, bi, extfmt.CRC32C(inv.RowData))
			}
		}
		ff := md.BloomFilters
		if ff.FieldBloomFilter == nil || ff.TokenBloomFilter == nil || ff.FieldTokenBloomFilter == nil {
			rc.Violate(i, "file-filter-absent", "", "an engine-written file lacks a file-level filter", map[string]any{"scenario": c.d, "file": f.Ptr})
			continue
		}
		// the MetaStore's copy of the file filters must cover the data too (it is what queries consult)
		for _, filt := range []struct {
			name string
			fs   bs.BloomFilters
		}{{"footer", ff}, {"metastore", f.Meta.BloomFilters}} {
			if filt.fs.FieldBloomFilter == nil {
				continue
			}
			miss := ""
			for e := range fileEntries.Fields {
				if !filt.fs.FieldBloomFilter.TestString(e) {
					miss = "field " + e
				}
			}
			for e := range fileEntries.Tokens {
				if !filt.fs.TokenBloomFilter.TestString(e) {
					miss = "token " + e
				}
			}
			for e := range fileEntries.Pairs {
				if !filt.fs.FieldTokenBloomFilter.TestString(e) {
					miss = "pair " + e
				}
			}
			rc.Res.Count("entries_tested", int64(len(fileEntries.Fields)+len(fileEntries.Tokens)+len(fileEntries.Pairs)))
			if miss != "" {
				rc.Violate(i, "file-filter-missing-entry", "", fmt.Sprintf("%s of a block is not in the file-level filters (%s copy)", miss, filt.name), map[string]any{"scenario": c.d, "file": f.Ptr})
				break
			}
		}
		if i < 2 {
			rc.Res.Sample(map[string]any{"scenario": c.d.Case, "file": f.Ptr, "blocks": len(f.Blocks), "file_entries": []int{len(fileEntries.Fields), len(fileEntries.Tokens), len(fileEntries.Pairs)}})
		}
	}
}

var _ = reflect.DeepEqual
