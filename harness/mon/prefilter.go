package mon

import (
	"context"
	"fmt"
	"math"
	"math/big"
	"strings"
	"time"

	bs "github.com/danthegoodman1/bloomsearch"

	"verifharness/core"
	"verifharness/gen"
	"verifharness/refsem"
	"verifharness/world"
)

func init() {
	Register(&Check{
		Spec: core.Spec{ID: "C04", Level: "exploration",
			Rule:        "two layers. (a) function layer: case = batch of (Go numeric value of a random kind incl. named types/huge unsigned/beyond-int64 floats/infinities, numeric condition with operands at the value's floor/ceil +-1 and the int64 extremes, neighbours that widen the block range); whenever exact arithmetic (math/big) says the value satisfies the condition, ConvertToMinMaxInt64 must index it and EvaluateMinMaxCondition/EvaluateDataBlockMetadata/FilterDataBlocks must keep the block, also inside random AND/OR trees with partition conditions. (b) engine layer: generated scenarios with boundary-magnitude values, flush+merge, then one prefilter-only query per (row, key, operator) that the row satisfies: the row must come back. non-trivial = the value satisfies the condition; distinct = distinct (value, type, condition) / (row, condition)",
			Assumptions: []string{"exact arithmetic via math/big is the meaning of 'satisfies'", "NaN is documented as not indexed and excluded"},
			Floors:      map[string]int64{"pairs_satisfied": 5000, "engine_rows_required": 200}},
		Cases: func(t string) int { return nQueries(t, 48, 1600) },
		Run:   runC04,
	})
}

func ratFloor(n refsem.Num) (int64, bool) {
	if n.Inf != 0 {
		return 0, false
	}
	f := new(big.Int).Div(n.Rat.Num(), n.Rat.Denom()) // Euclidean: floor for positive denominators
	if !f.IsInt64() {
		return 0, false
	}
	return f.Int64(), true
}

func operandsNear(r *core.Rand, n refsem.Num) int64 {
	cands := []int64{math.MaxInt64, math.MinInt64, math.MaxInt64 - 1, math.MinInt64 + 1, 0, 1, -1}
	if fl, ok := ratFloor(n); ok {
		cands = append(cands, fl, fl, fl)
		if fl < math.MaxInt64 {
			cands = append(cands, fl+1, fl+1)
		}
		if fl > math.MinInt64 {
			cands = append(cands, fl-1)
		}
		if fl < math.MaxInt64-1 {
			cands = append(cands, fl+2)
		}
	}
	return core.Pick(r, cands)
}

func condNear(r *core.Rand, n refsem.Num) bs.NumericCondition {
	a, b := operandsNear(r, n), operandsNear(r, n)
	switch r.Intn(10) {
	case 0:
		return bs.NumericEquals(a)
	case 1:
		return bs.NumericNotEquals(a)
	case 2:
		return bs.NumericGreaterThan(a)
	case 3:
		return bs.NumericGreaterThanEqual(a)
	case 4:
		return bs.NumericLessThan(a)
	case 5:
		return bs.NumericLessThanEqual(a)
	case 6:
		return bs.NumericIn(a, b, operandsNear(r, n))
	case 7:
		return bs.NumericNotIn(a, b)
	case 8:
		if r.Chance(0.85) && a > b {
			a, b = b, a
		}
		return bs.NumericBetween(a, b)
	default:
		if r.Chance(0.85) && a > b {
			a, b = b, a
		}
		return bs.NumericNotBetween(a, b)
	}
}

// satisfiedCond draws conditions until one is satisfied by n (or gives up).
func satisfiedCond(r *core.Rand, n refsem.Num) (bs.NumericCondition, bool) {
	for t := 0; t < 12; t++ {
		c := condNear(r, n)
		if n.Satisfies(c) {
			return c, true
		}
	}
	return bs.NumericCondition{}, false
}

func runC04(rc *RunCtx, i int) {
	r := rc.CaseRand(i)
	// ---- (a) function layer
	pairs := 500
	if rc.Tier == "thorough" {
		pairs = 1500
	}
	fr := r.Split("fn")
	for k := 0; k < pairs; k++ {
		v := gen.NumberOrInf(fr)
		n, ok := refsem.NumericValue(v)
		if !ok {
			continue
		}
		rc.Res.Eval(1)
		c := condNear(fr, n)
		mn, mx, conv := bs.ConvertToMinMaxInt64(v)
		wit := func(extra any) map[string]any {
			return map[string]any{"value": fmt.Sprintf("%v", v), "type": fmt.Sprintf("%T", v), "condition": c, "converted": []any{mn, mx, conv}, "detail": extra}
		}
		if !conv {
			rc.Violate(i, "numeric-value-not-indexed", "", fmt.Sprintf("ConvertToMinMaxInt64(%T(%v)) reports not numeric", v, v), wit(nil))
			continue
		}
		idx := bs.MinMaxIndex{Min: mn, Max: mx}
		if !n.CoveredBy(idx) {
			rc.Violate(i, "converted-range-does-not-cover-value", "", fmt.Sprintf("ConvertToMinMaxInt64(%T(%v)) = [%d, %d] does not cover the value", v, v, mn, mx), wit(nil))
			continue
		}
		// widen the block range with neighbours, as ingest and merge do
		for j := fr.Intn(4); j > 0; j-- {
			ov := gen.NumberOrInf(fr)
			if omn, omx, ok := bs.ConvertToMinMaxInt64(ov); ok {
				idx = bs.UpdateMinMaxIndex(idx, omn, omx)
			}
		}
		if !n.CoveredBy(idx) {
			rc.Violate(i, "widened-range-lost-value", "", fmt.Sprintf("after UpdateMinMaxIndex the range [%d, %d] no longer covers %v", idx.Min, idx.Max, v), wit(nil))
			continue
		}
		// merge unions whole block ranges through the same helper: the union must cover both
		if fr.Chance(0.5) {
			a, b := operandsNear(fr, n), operandsNear(fr, n)
			if a > b {
				a, b = b, a
			}
			other := bs.MinMaxIndex{Min: a, Max: b}
			u := bs.UpdateMinMaxIndex(idx, other.Min, other.Max)
			u2 := bs.UpdateMinMaxIndex(other, idx.Min, idx.Max)
			for _, un := range []bs.MinMaxIndex{u, u2} {
				if un.Min > idx.Min || un.Min > other.Min || un.Max < idx.Max || un.Max < other.Max {
					rc.Violate(i, "range-union-not-covering", "", fmt.Sprintf("UpdateMinMaxIndex as a union of [%d,%d] and [%d,%d] gave [%d,%d]", idx.Min, idx.Max, other.Min, other.Max, un.Min, un.Max), wit(nil))
					break
				}
			}
			idx = u
			rc.Res.Count("range_unions", 1)
		}
		if !n.Satisfies(c) {
			continue
		}
		rc.Res.Count("pairs_satisfied", 1)
		rc.Res.Count("op."+string(c.Operator), 1)
		rc.Res.Nontrivial(fmt.Sprintf("%T", v), fmt.Sprintf("%v", v), fmt.Sprintf("%+v", c))
		if !bs.EvaluateMinMaxCondition(idx, c) {
			rc.Violate(i, "satisfying-block-pruned", "", fmt.Sprintf("value %T(%v) satisfies %+v but EvaluateMinMaxCondition([%d, %d]) is false", v, v, c, idx.Min, idx.Max), wit(idx))
			continue
		}
		// inside a tree: the satisfied condition ANDed/ORed with others the row also decides
		part := core.Pick(fr, []string{"p1", "p2", "zz"})
		pc := core.Pick(fr, []bs.StringCondition{bs.PartitionEquals(part), bs.PartitionIn(part, "q"), bs.PartitionNotEquals("other"), bs.PartitionGreaterThanEqual(part), bs.PartitionBetween(part, part)})
		falseLeaf := bs.MinMax("absent", bs.NumericEquals(1))
		tree := bs.PrefilterAnd(bs.MinMax("k", c), bs.PrefilterOr(falseLeaf, bs.Partition(pc)), bs.PrefilterOr(bs.PrefilterAnd(), falseLeaf))
		if fr.Bool() {
			tree = bs.PrefilterOr(falseLeaf, bs.PrefilterAnd(bs.Partition(pc), bs.MinMax("k", c)))
		}
		pf := &bs.QueryPrefilter{Expression: &tree}
		facts := &refsem.RowFacts{Partition: part, Indexed: map[string]refsem.Num{"k": n}}
		if !refsem.RowSatisfies(facts, pf) {
			rc.Violate(i, "harness-tree-bug", "", "harness built a tree its own row does not satisfy", wit(tree))
			continue
		}
		blk := bs.DataBlockMetadata{PartitionID: part, MinMaxIndexes: map[string]bs.MinMaxIndex{"k": idx}}
		if !bs.EvaluateDataBlockMetadata(&blk, pf) || len(bs.FilterDataBlocks([]bs.DataBlockMetadata{blk}, pf)) != 1 {
			rc.Violate(i, "satisfying-block-pruned-by-tree", "", fmt.Sprintf("block {partition %q, k in [%d,%d]} holding %T(%v) excluded by a prefilter tree the row satisfies", part, idx.Min, idx.Max, v, v), wit(tree))
		}
		if k == 0 && i < 3 {
			rc.Res.Sample(map[string]any{"layer": "function", "value": fmt.Sprintf("%T(%v)", v, v), "condition": c, "range": idx})
		}
	}

	// ---- (b) engine layer
	caseID := fmt.Sprintf("%s%d_%d", strings.ToLower(rc.ID), rc.Seed, i)
	o := world.BuildOpts{MoreMerge: true, MaxRows: 60, BigNums: true}
	w, d, err := world.Build(r.Split("world"), caseID, o)
	if err != nil {
		rc.Violate(i, "scenario-failed", "", "fault-free scenario failed: "+err.Error(), nil)
		return
	}
	defer w.Close()
	rc.Res.Count("scenarios", 1)
	er := r.Split("engine")
	recs := w.StoredRecs()
	tries := 12
	if rc.Tier == "thorough" {
		tries = 30
	}
	// every (row, indexed key): a tight condition that only a range covering the row's own value passes
	for _, rec := range recs {
		for _, key := range rec.Keys {
			n := rec.Indexed[key]
			fl, ok := ratFloor(n)
			if !ok {
				continue
			}
			hi := fl
			if n.Cmp(fl) != 0 && fl < math.MaxInt64 {
				hi = fl + 1
			}
			c := bs.NumericBetween(fl, hi)
			if !n.Satisfies(c) {
				continue
			}
			q := bs.NewQuery().MatchPrefilter(bs.MinMax(key, c)).Build()
			e := w.Eng[er.Intn(len(w.Eng))]
			ctx, cancel := context.WithTimeout(context.Background(), core.Patience)
			res := world.RunQuery(ctx, e, q)
			cancel()
			rc.Res.Eval(1)
			rc.Res.Count("engine_rows_required", 1)
			if res.QErr != nil || res.Err != nil {
				rc.Violate(i, "query-error-on-healthy-stores", "", fmt.Sprintf("%v %v", res.QErr, res.Err), map[string]any{"query": queryJSON(q), "scenario": d})
				return
			}
			if res.VIDs[rec.VID] < rec.Count {
				rc.Violate(i, "satisfying-row-pruned", "", fmt.Sprintf("row %s has %s = %T(%v), which satisfies %+v, but the prefiltered query did not return it", rec.VID, key, rec.Row[key], rec.Row[key], c),
					map[string]any{"query": queryJSON(q), "row": string(rec.JSON), "scenario": d})
				return
			}
		}
	}
	for t := 0; t < tries && len(recs) > 0; t++ {
		rec := core.Pick(er, recs)
		if len(rec.Keys) == 0 {
			continue
		}
		key := core.Pick(er, rec.Keys)
		n := rec.Indexed[key]
		c, ok := satisfiedCond(er, n)
		if !ok {
			continue
		}
		expr := bs.MinMax(key, c)
		if rec.Part != "" && er.Bool() {
			expr = bs.PrefilterAnd(expr, bs.Partition(bs.PartitionEquals(rec.Part)))
		}
		qb := bs.NewQuery().MatchPrefilter(expr)
		if er.Chance(0.4) {
			qb = qb.FieldToken("_vid", rec.VID)
		}
		q := qb.Build()
		if !rec.View.Match(q) { // e.g. a tokenizer that drops or rewrites the vid token
			q = bs.NewQuery().MatchPrefilter(expr).Build()
		}
		e := w.Eng[er.Intn(len(w.Eng))]
		rc.Res.Eval(1)
		ctx, cancel := context.WithTimeout(context.Background(), core.Patience)
		res := world.RunQuery(ctx, e, q)
		cancel()
		rc.Res.Count("engine_rows_required", 1)
		rc.Res.Nontrivial(rec.VID, key, fmt.Sprintf("%+v", c))
		if res.QErr != nil || res.Err != nil {
			rc.Violate(i, "query-error-on-healthy-stores", "", fmt.Sprintf("%v %v", res.QErr, res.Err), map[string]any{"query": queryJSON(q), "scenario": d})
			continue
		}
		if res.VIDs[rec.VID] < rec.Count {
			rc.Violate(i, "satisfying-row-pruned", "", fmt.Sprintf("row %s has %s = %T(%v), which satisfies %+v, but the prefiltered query did not return it", rec.VID, key, rec.Row[key], rec.Row[key], c),
				map[string]any{"query": queryJSON(q), "row": string(rec.JSON), "scenario": d})
		}
		if t == 0 && i < 3 {
			rc.Res.Sample(map[string]any{"layer": "engine", "row_value": fmt.Sprintf("%T(%v)", rec.Row[key], rec.Row[key]), "key": key, "condition": c, "returned": len(res.Rows)})
		}
	}
}

var _ = time.Second
