package mon

import (
	"fmt"
	"os"
)

// AuxHandlers are helper child-process modes (vcheck --aux <name> args...).
var AuxHandlers = map[string]func(args []string) int{}

func Aux(args []string) int {
	if len(args) == 0 {
		return 2
	}
	h := AuxHandlers[args[0]]
	if h == nil {
		fmt.Fprintf(os.Stderr, "unknown aux mode %s\n", args[0])
		return 2
	}
	return h(args[1:])
}
