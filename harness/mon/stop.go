package mon

import (
	"context"
	"errors"
	"fmt"
	"strings"
	"sync"
	"sync/atomic"
	"time"

	bs "github.com/danthegoodman1/bloomsearch"

	"verifharness/core"
	"verifharness/gen"
	"verifharness/stores"
)

// lateCtx is a context implementation with its own Done channel whose
// AfterFunc hook runs callbacks late (a legal implementation: AfterFunc
// promises the callback runs in its own goroutine after the context is done,
// not when).
type lateCtx struct {
	done  chan struct{}
	mu    sync.Mutex
	err   error
	delay time.Duration
	once  sync.Once
}

func newLateCtx(delay time.Duration) *lateCtx {
	return &lateCtx{done: make(chan struct{}), delay: delay}
}

func (c *lateCtx) Deadline() (time.Time, bool) { return time.Time{}, false }
func (c *lateCtx) Done() <-chan struct{}       { return c.done }
func (c *lateCtx) Value(any) any               { return nil }
func (c *lateCtx) Err() error {
	c.mu.Lock()
	defer c.mu.Unlock()
	return c.err
}
func (c *lateCtx) expire() {
	c.once.Do(func() {
		c.mu.Lock()
		c.err = context.DeadlineExceeded
		c.mu.Unlock()
		close(c.done)
	})
}

// AfterFunc is the hook context.AfterFunc uses for foreign context types.
func (c *lateCtx) AfterFunc(f func()) func() bool {
	var stopped atomic.Bool
	go func() {
		<-c.done
		time.Sleep(c.delay)
		if stopped.CompareAndSwap(false, true) {
			f()
		}
	}()
	return func() bool { return stopped.CompareAndSwap(false, true) }
}

func init() {
	Register(&Check{
		Spec: core.Spec{ID: "C08", Level: "exploration",
			Rule:        "case = started engine with small flush limits; a flush-path store call (k-th CreateFile/Write/Close/Update) is held at a gate that ignores contexts and/or done channels are abandoned unbuffered, producers keep ingesting (some blocked on the full ingest buffer), then Stop is called with a deadline context (WithTimeout, WithCancel cancelled by hand, a foreign context type with its own Done channel whose AfterFunc runs callbacks late, an already-expired context) or without wedges and no deadline. With an unreachable backend (from the k-th call on every flush-path store call blocks until its context is done, and stays so after Stop returned) the deadline abort alone must unwind both workers and answer every waiter with channel capacity while the store is still unreachable. Checked: callers that start after the stop.flagged hook fired get ErrEngineStopped; Stop returns on its own (the gate stays shut until Stop returned or deadline + 8 s); after a deadline error no CreateFile starts and no flush begun afterwards reaches Update; once the harness unwedges the stores every waiter with channel capacity has exactly one value; Stop == nil implies every accepted batch answered. non-trivial = Stop call that overlapped a wedged flush or producers; distinct = distinct (wedge, context kind, gate position, schedule signature)",
			Assumptions: []string{"a flush already inside a store call when the deadline fired may finish (its later Close/Update are 'finishing', not starting)", "wall clock only in the 8 s bound, three orders of magnitude from both correct (ms) and broken (never) behaviour"},
			Floors:      map[string]int64{"histories": 60, "stop_deadline_errors": 25, "late_callers_checked": 60, "ctx.late-afterfunc": 8, "unreachable_backend_histories": 8}},
		Cases:       func(t string) int { return nQueries(t, 96, 3000) },
		Run:         runC08,
		RaceMatters: true,
	})
}

func runC08(rc *RunCtx, i int) {
	r := rc.CaseRand(i)
	env, err := newLifecycleEnv(rc, i, r, func(s *gen.EngineSpec) {
		s.BufRows = core.Pick(r, []int{1, 2, 4})
		s.IngestBuf = core.Pick(r, []int{1, 2, 8})
	})
	if err != nil {
		rc.Violate(i, "scenario-failed", "", err.Error(), nil)
		return
	}
	e := env.e
	e.Start()
	clock := env.clock
	led := env.led

	wedge := core.Pick(r, []string{"gate", "gate", "gate", "abandoned-chan", "gate+abandoned", "none", "unreachable", "unreachable"})
	ctxKind := core.Pick(r, []string{"timeout", "timeout", "cancel", "late-afterfunc", "late-afterfunc", "expired"})
	if wedge == "none" {
		ctxKind = core.Pick(r, []string{"background", "timeout-long"})
	}
	gateKind := core.Pick(r, []string{"CreateFile", "Write", "Close", "Update"})
	gateN := 0
	if gateKind == "Write" {
		gateN = r.Range(0, 6)
	}
	// "unreachable": from the trigger call on, every flush-path store call blocks until its
	// context is done (a backend that went away behind a client that honours contexts; writers
	// are bound to the context CreateFile got). The store stays that way after Stop returned.
	unreach := wedge == "unreachable"
	gate := stores.NewGate(unreach)
	var gateHit atomic.Bool
	tripped := false
	useGate := strings.Contains(wedge, "gate") || unreach
	pr := r.Split("plan")
	var pmu sync.Mutex
	env.log.Plan = &stores.Plan{Decide: func(c *stores.Call) stores.Action {
		pmu.Lock()
		defer pmu.Unlock()
		var a stores.Action
		if useGate && c.Kind == gateKind && c.N == gateN {
			a.Gate = gate
			gateHit.Store(true)
			tripped = true
		}
		if unreach && tripped && flushPathKinds[c.Kind] {
			a.Gate = gate
		}
		if pr.Intn(8) == 0 {
			a.Delay = time.Duration(pr.Range(10, 200)) * time.Microsecond
		}
		return a
	}}
	pm := installPoints(r.Split("points"), true, 300)
	defer pm.uninstall(rc.Res)
	var flaggedTick atomic.Int64
	pm.on("stop.flagged", func() { flaggedTick.Store(clock.Tick()) })

	deadline := time.Duration(r.Range(60, 250)) * time.Millisecond
	desc := map[string]any{"case": env.w.Case, "wedge": wedge, "gate": fmt.Sprintf("%s#%d", gateKind, gateN), "ctx": ctxKind, "deadline": deadline.String(), "engine": env.spec}

	// producers
	producers := r.Range(1, 6)
	rowRand := r.Split("rows")
	var rowMu sync.Mutex
	var pwg sync.WaitGroup
	abandonP := 0.0
	if strings.Contains(wedge, "abandoned") {
		abandonP = 0.5
	}
	ar := r.Split("abandon")
	var armu sync.Mutex
	for p := 0; p < producers; p++ {
		pwg.Add(1)
		go func(p int) {
			defer pwg.Done()
			n := 3 + p%4
			for k := 0; k < n; k++ {
				rowMu.Lock()
				// batches the ingest actor answers itself (empty, nil, unmarshalable) go through
				// a different delivery site than flushed ones: both must obey the deadline
				bk := core.Pick(rowRand, []string{"normal", "normal", "normal", "normal", "empty", "nilrows", "unmarshalable"})
				rows, recs := makeBatch(rowRand, env.w, bk)
				rowMu.Unlock()
				o := led.newOp("ingest")
				o.Batch, o.Rows, o.recs = bk, len(rows), recs
				armu.Lock()
				ab := ar.Chance(abandonP)
				armu.Unlock()
				if ab {
					o.Chan = "abandoned"
					o.ch = make(chan error) // unbuffered, nobody receives
				} else {
					led.makeChan(o, "buffered")
				}
				// some producers block without a deadline of their own (Stop must unwind them)
				ctx, cancel := context.Background(), context.CancelFunc(func() {})
				if p%2 == 0 {
					ctx, cancel = context.WithTimeout(context.Background(), 3*time.Second)
				}
				o.mu.Lock()
				o.CallTick = clock.Tick()
				o.mu.Unlock()
				err := e.IngestRows(ctx, rows, o.ch)
				cancel()
				o.mu.Lock()
				o.RetTick = clock.Tick()
				if err != nil {
					o.Err = err.Error()
				} else {
					o.accepted = true
				}
				o.mu.Unlock()
				o.returned.Store(true)
				if err != nil {
					return
				}
			}
		}(p)
	}
	// let the wedge establish itself: wait until the gate is hit or the producers made progress
	for t := 0; t < 400; t++ {
		if (useGate && gateHit.Load()) || (!useGate && t > 20) {
			break
		}
		time.Sleep(500 * time.Microsecond)
	}
	time.Sleep(time.Duration(r.Range(0, 3000)) * time.Microsecond)

	// Flush callers that are inside Flush (waiting for their turn or for their answer) when Stop
	// and its deadline arrive: a Flush call is a waiter that can always receive, so it must come
	// back, with nil or an error, never hang
	var flushReturned []*atomic.Bool
	var flushNil atomic.Int32
	flushersBehindWedge := useGate && gateHit.Load()
	for k, n := 0, r.Range(0, 2); k < n; k++ {
		fr := &atomic.Bool{}
		flushReturned = append(flushReturned, fr)
		go func() {
			if e.Flush(context.Background()) == nil {
				flushNil.Add(1)
			}
			fr.Store(true)
		}()
	}
	if len(flushReturned) > 0 {
		time.Sleep(time.Duration(r.Range(0, 1500)) * time.Microsecond)
	}
	// Stop
	var ctx context.Context
	cancel := func() {}
	var late *lateCtx
	switch ctxKind {
	case "timeout":
		ctx, cancel = context.WithTimeout(context.Background(), deadline)
	case "timeout-long":
		ctx, cancel = context.WithTimeout(context.Background(), core.Patience)
	case "cancel":
		c, cf := context.WithCancel(context.Background())
		ctx, cancel = c, cf
		go func() { time.Sleep(deadline); cf() }()
	case "late-afterfunc":
		late = newLateCtx(time.Duration(r.Range(300, 600)) * time.Millisecond)
		ctx = late
		go func() { time.Sleep(deadline); late.expire() }()
	case "expired":
		c, cf := context.WithCancel(context.Background())
		cf()
		ctx, cancel = c, cf
	default:
		ctx = context.Background()
	}
	defer cancel()
	stopCall := clock.Tick()
	stopStart := time.Now()
	var stopErr error
	stopDone := make(chan struct{})
	go func() {
		stopErr = e.Stop(ctx)
		close(stopDone)
	}()
	// late callers: start only after the stop.flagged hook fired
	var lateWG sync.WaitGroup
	var lateViol atomic.Value
	lateN := r.Range(1, 4)
	lateWG.Add(1)
	go func() {
		defer lateWG.Done()
		for t := 0; t < 4000 && flaggedTick.Load() == 0; t++ {
			time.Sleep(250 * time.Microsecond)
		}
		if flaggedTick.Load() == 0 {
			return
		}
		for k := 0; k < lateN; k++ {
			c2, cf := context.WithTimeout(context.Background(), 2*time.Second)
			start := clock.Tick()
			var err error
			what := "IngestRows"
			if k%2 == 0 {
				err = e.IngestRows(c2, []map[string]any{{"_vid": fmt.Sprintf("late%d", k)}}, make(chan error, 2))
			} else {
				what = "Flush"
				err = e.Flush(c2)
			}
			cf()
			rc.Res.Count("late_callers_checked", 1)
			if !errors.Is(err, bs.ErrEngineStopped) {
				lateViol.Store(fmt.Sprintf("%s started at tick %d, after Stop had set its stopped flag (tick %d), returned %v instead of ErrEngineStopped", what, start, flaggedTick.Load(), err))
				return
			}
		}
	}()
	limit := 8*time.Second + deadline
	if ctxKind == "background" || ctxKind == "timeout-long" {
		limit = 0 // decided by the stuck detector
	}
	returnedOnItsOwn := true
	if limit > 0 {
		select {
		case <-stopDone:
		case <-time.After(limit):
			returnedOnItsOwn = false
		}
	} else {
		if v := awaitProgress(stopDone); v != "" {
			gate.Open()
			if strings.HasPrefix(v, "stuck:") {
				rc.Violate(i, "stop-stuck", "", "Stop without wedges did not return", map[string]any{"history": desc, "dump": strings.TrimPrefix(v, "stuck:")})
			} else {
				rc.Res.Inconc("C08 watchdog")
			}
			return
		}
	}
	stopElapsed := time.Since(stopStart)
	stopRet := clock.Tick()
	// The backend is still unreachable: the deadline abort alone must unwind the pipeline and
	// tell every waiter that can receive. (A store that ignores contexts cannot be unwound; there
	// only Stop's own return is demanded.)
	if unreach && returnedOnItsOwn && stopErr != nil && gateHit.Load() {
		silent, alive, dump := 0, true, ""
		for t := 0; t < 400; t++ {
			silent = 0
			for _, o := range led.snapshot() {
				if !o.returned.Load() {
					continue // still inside IngestRows: its fields are the producer's
				}
				o.collect(clock)
				o.mu.Lock()
				acc, ch := o.accepted, o.Chan
				o.mu.Unlock()
				if o.Kind == "ingest" && acc && ch == "buffered" && o.nAns.Load() == 0 {
					silent++
				}
			}
			alive, dump = workerFramesAlive()
			if silent == 0 && !alive {
				break
			}
			time.Sleep(25 * time.Millisecond)
		}
		rc.Res.Count("unreachable_backend_histories", 1)
		if silent > 0 || alive {
			blockedInStore := strings.Contains(dump, "stores.(*Gate).wait")
			gate.Open()
			<-stopDone
			if blockedInStore {
				pwg.Wait()
				desc["ops"] = viewOps(led.snapshot())
				rc.Violate(i, "waiters-silent-after-stop-deadline", "", fmt.Sprintf("10 s after Stop returned its deadline error, with the backend still unreachable (every store call blocks until its context is done), %d accepted batch(es) with a buffered done channel have no answer and a worker is blocked inside a store call whose context was not cancelled by the deadline", silent), map[string]any{"history": desc, "dump": core.Trunc(dump, 6000), "store_calls": tailCalls(env.log.Snapshot(), 30)})
			} else {
				rc.Res.Inconc("C08 unreachable-backend phase: pipeline not unwound after 10 s, no worker inside a store call")
			}
			led.close()
			return
		}
	}
	// unwedge: from here on the stores are responsive
	gate.Open()
	if !returnedOnItsOwn {
		how := "it returned only once the harness unwedged the store"
		select {
		case <-stopDone:
		case <-time.After(5 * time.Second):
			how = "it has still not returned 5 s after the harness unwedged the store"
		}
		rc.Violate(i, "stop-ignored-deadline", "", fmt.Sprintf("Stop(%s context, deadline %s) had not returned %s after the call; %s", ctxKind, deadline, limit, how), map[string]any{"history": desc, "dump": core.Trunc(strings.Join(engineStacks(allStacks(), ").Stop", ").ingestWorker", ").flushWorker", ").IngestRows"), "\n"), 6000)})
		return
	}
	lateWG.Wait()
	rc.Res.Eval(1)
	rc.Res.Count("histories", 1)
	rc.Res.Count("wedge."+wedge, 1)
	rc.Res.Count("ctx."+ctxKind, 1)
	rc.Res.Max("max.stop_elapsed_ms", stopElapsed.Milliseconds())
	if v := lateViol.Load(); v != nil {
		rc.Violate(i, "accepted-after-stop-began", "", v.(string), desc)
		led.close()
		return
	}
	if stopErr != nil {
		rc.Res.Count("stop_deadline_errors", 1)
		if !errors.Is(stopErr, context.DeadlineExceeded) && !errors.Is(stopErr, context.Canceled) {
			rc.Violate(i, "stop-error-not-context", "", "Stop returned "+stopErr.Error(), desc)
			led.close()
			return
		}
	}
	// let the engine wind down (gates are open; canceled flush context gives up blocked sends)
	if late != nil {
		late.expire()
	}
	alive, dump := true, ""
	for t := 0; t < 400 && alive; t++ {
		alive, dump = workerFramesAlive()
		if alive {
			time.Sleep(25 * time.Millisecond)
		}
	}
	pwg.Wait()
	for t := 0; t < 400; t++ {
		pending := 0
		for _, fr := range flushReturned {
			if !fr.Load() {
				pending++
			}
		}
		if pending == 0 {
			break
		}
		if t == 399 {
			rc.Violate(i, "flush-caller-never-returned", "", fmt.Sprintf("%d Flush call(s) that were in progress when Stop ran have not returned 10 s after Stop returned (err=%v), the stores were unwedged and the workers exited", pending, stopErr), map[string]any{"history": desc, "dump": core.Trunc(strings.Join(engineStacks(allStacks(), ").Flush"), "\n"), 4000)})
			led.close()
			return
		}
		time.Sleep(25 * time.Millisecond)
	}
	rc.Res.Count("flush_callers_across_stop", int64(len(flushReturned)))
	// These Flush calls were issued while the flush worker was already held inside a store call,
	// so at the deadline they were all still waiting: each is a waiter that can receive, and what
	// it receives after a deadline abort must be an error (nil would claim that everything
	// accepted before it is durable, while the flushes ahead of it were abandoned).
	if flushersBehindWedge && stopErr != nil && flushNil.Load() > 0 {
		rc.Violate(i, "flush-caller-answered-nil-after-stop-deadline", "", fmt.Sprintf("%d Flush call(s) issued while the flush worker was held inside a store call (so still waiting when Stop returned %v) returned nil", flushNil.Load(), stopErr), map[string]any{"history": desc, "store_calls": tailCalls(env.log.Snapshot(), 30)})
		led.close()
		return
	}
	ops := led.snapshot()
	for _, o := range ops {
		o.collect(clock)
	}
	calls := env.log.Snapshot()
	desc["stop"] = map[string]any{"call": stopCall, "flagged": flaggedTick.Load(), "ret": stopRet, "err": fmt.Sprint(stopErr), "elapsed_ms": stopElapsed.Milliseconds()}
	nonTrivial := (useGate && gateHit.Load()) || strings.Contains(wedge, "abandoned")
	if nonTrivial {
		rc.Res.Nontrivial(env.w.Case, wedge, ctxKind, gateKind, gateN, len(calls))
	}
	if stopErr != nil {
		// (4) no store work started after Stop returned its deadline error
		for _, c := range calls {
			if c.Kind == "CreateFile" && c.Start > stopRet {
				desc["ops"] = viewOps(ops)
				rc.Violate(i, "store-work-after-stop-deadline", "", fmt.Sprintf("CreateFile #%d started at tick %d, after Stop had returned its deadline error at tick %d (context kind %s)", c.N, c.Start, stopRet, ctxKind), map[string]any{"history": desc, "store_calls": tailCalls(calls, 40)})
				led.close()
				return
			}
		}
		if alive {
			rc.Violate(i, "workers-never-exit", "", "10 s after Stop returned a deadline error and the stores were unwedged, ingest/flush workers are still running", map[string]any{"history": desc, "dump": core.Trunc(dump, 5000)})
			led.close()
			return
		}
	} else if alive {
		rc.Violate(i, "worker-alive-after-stop", "", "Stop returned nil but a worker goroutine is still running", map[string]any{"history": desc, "dump": core.Trunc(dump, 5000)})
		led.close()
		return
	}
	// (2)/(5) waiters with capacity have exactly one value once the engine goroutines exited
	for _, o := range ops {
		o.mu.Lock()
		acc, ch := o.accepted, o.Chan
		o.mu.Unlock()
		if o.Kind != "ingest" || !acc || ch != "buffered" {
			continue
		}
		if n := o.nAns.Load(); n != 1 {
			desc["ops"] = viewOps(ops)
			what := "got silence"
			if n > 1 {
				what = fmt.Sprintf("got %d answers", n)
			}
			rc.Violate(i, "waiter-not-answered-once", "", fmt.Sprintf("accepted batch %d with a buffered done channel %s after Stop (err=%v) and engine exit", o.ID, what, stopErr), desc)
			led.close()
			return
		}
		rc.Res.Count("waiters_checked", 1)
	}
	led.close()
	if i < 4 {
		rc.Res.Sample(map[string]any{"history": desc, "ops": len(ops), "store_calls": len(calls), "gate_reached": gateHit.Load()})
	}
}

func tailCalls(calls []stores.Call, n int) []stores.Call {
	if len(calls) > n {
		return calls[len(calls)-n:]
	}
	return calls
}
