package mon

import (
	"context"
	"encoding/json"
	"fmt"
	"os"
	"os/exec"
	"path/filepath"
	"regexp"
	"sort"
	"strconv"
	"strings"
	"time"

	bs "github.com/danthegoodman1/bloomsearch"

	"verifharness/core"
	"verifharness/gen"
	"verifharness/stores"
	"verifharness/world"
)

func init() {
	Register(&Check{
		Spec: core.Spec{ID: "C15", Level: "fault_enumeration",
			Rule:        "case = one sequential history on a real temporary directory with FileSystemDataStore as both stores: acknowledged ingest+flush steps, flushes made to fail by the crash-point handler itself (it removes the .tmp just before the rename, so Close fails and the abort/tombstone path runs), single- and multi-group merges, repeated merges. The tagged verifFS callback fires after every filesystem mutation (reservation create/close, temp create, each write, sync, handle close, rename, directory sync, every remove of Abort/TombstoneFile/Update); at each one the directory is copied (= the process-crash image after that mutation, with the set of rows acknowledged so far) and fed to a shadow durability model (volatile namespace/inodes vs durable namespace and per-inode durable length: fsync(file) makes its bytes durable, fsync(dir) makes the namespace durable). From every crash point: the process-crash image, a torn-write image, and power-loss images (durable namespace plus a prefix or PRNG subset of the pending namespace operations; unsynced tails dropped, truncated or zero-filled). Every image is opened by a fresh FileSystemDataStore + engine: scan succeeds, every yielded file fully readable, match-all query Err == nil, superset of rows acked before the crash point, only ingested rows, none more often than ingested. evaluations = images opened; non-trivial = image taken strictly inside a flush/merge/abort (not at a quiescent point); distinct = distinct (history, crash point, variant); exhaustive over the mutation boundaries of each explored history, power-loss subsets sampled",
			Assumptions: []string{"conservative POSIX durability model: a file's fsync does not persist its directory entry; directory fsync persists all namespace changes so far", "sequential client: the ack set at a crash point is the ledger state when the callback ran"},
			Floors:      map[string]int64{"histories": 6, "crash_points": 300, "images_opened": 1000, "images_power_loss": 400, "event.update.remove": 8, "merge_commit_windows": 4}},
		Cases: func(t string) int { return nQueries(t, 32, 300) },
		Run:   runC15,
	})
}

type fsEvent struct {
	idx   int
	op    string
	a, b  string
	files map[string][]byte // directory content right after the mutation
	acked int               // batches acked so far
	inOp  string            // flush/merge/failflush the event belongs to
}

type crashImage struct {
	event   int
	variant string
	files   map[string][]byte
}

func snapshotDir(dir string) map[string][]byte {
	out := map[string][]byte{}
	ents, _ := os.ReadDir(dir)
	for _, e := range ents {
		if e.IsDir() {
			continue
		}
		b, err := os.ReadFile(filepath.Join(dir, e.Name()))
		if err == nil {
			out[e.Name()] = b
		}
	}
	return out
}

// shadow durability model
type inode struct {
	content    []byte
	durableLen int
}

type nsOp struct {
	kind     string // create, rename, remove
	name, to string
	ino      int
}

type shadow struct {
	inodes  map[int]*inode
	next    int
	V, D    map[string]int
	pending []nsOp
}

func newShadow() *shadow {
	return &shadow{inodes: map[int]*inode{}, V: map[string]int{}, D: map[string]int{}}
}

func (s *shadow) apply(ev *fsEvent, synced map[string]bool) {
	base := func(p string) string { return filepath.Base(p) }
	switch ev.op {
	case "reserve.create", "tmp.create":
		s.next++
		s.inodes[s.next] = &inode{}
		s.V[base(ev.a)] = s.next
		s.pending = append(s.pending, nsOp{kind: "create", name: base(ev.a), ino: s.next})
	case "rename":
		if ino, ok := s.V[base(ev.a)]; ok {
			s.V[base(ev.b)] = ino
			delete(s.V, base(ev.a))
			s.pending = append(s.pending, nsOp{kind: "rename", name: base(ev.a), to: base(ev.b), ino: ino})
		}
	case "abort.remove", "tombstone.remove", "update.remove", "harness.remove":
		if _, ok := s.V[base(ev.a)]; ok {
			delete(s.V, base(ev.a))
			s.pending = append(s.pending, nsOp{kind: "remove", name: base(ev.a)})
		}
	}
	// refresh volatile contents from the directory as it is now
	for name, ino := range s.V {
		if c, ok := ev.files[name]; ok {
			s.inodes[ino].content = c
		}
	}
	// Durability facts: with a syscall trace (synced != nil) a file or the directory is
	// durable only if an fsync on it really returned since the previous crash point; without
	// one the hook's word is taken.
	did := func(path string) bool { return synced == nil || synced[path] }
	switch ev.op {
	case "sync":
		if ino, ok := s.V[base(ev.a)]; ok && did(ev.a) {
			s.inodes[ino].durableLen = len(s.inodes[ino].content)
		}
	case "syncdir":
		if did(ev.a) {
			s.D = map[string]int{}
			for k, v := range s.V {
				s.D[k] = v
			}
			s.pending = nil
		}
	}
}

// powerLossImages derives images from the current shadow state.
func (s *shadow) powerLossImages(r *core.Rand, n int) []map[string][]byte {
	var out []map[string][]byte
	build := func(applied []bool, mode int) map[string][]byte {
		ns := map[string]int{}
		for k, v := range s.D {
			ns[k] = v
		}
		for i, op := range s.pending {
			if !applied[i] {
				continue
			}
			switch op.kind {
			case "create":
				ns[op.name] = op.ino
			case "rename":
				if ino, ok := ns[op.name]; ok && ino == op.ino {
					delete(ns, op.name)
					ns[op.to] = op.ino
				} else if !ok {
					// the source entry never became durable: the rename did not either
				}
			case "remove":
				delete(ns, op.name)
			}
		}
		img := map[string][]byte{}
		for name, ino := range ns {
			in := s.inodes[ino]
			c := in.content
			d := in.durableLen
			if d > len(c) {
				d = len(c)
			}
			switch mode {
			case 0: // unsynced tail lost
				img[name] = append([]byte(nil), c[:d]...)
			case 1: // part of the tail made it
				cut := d
				if len(c) > d {
					cut = d + r.Intn(len(c)-d+1)
				}
				img[name] = append([]byte(nil), c[:cut]...)
			case 2: // length updated, data not: zero fill
				b := make([]byte, len(c))
				copy(b, c[:d])
				img[name] = b
			default: // everything made it
				img[name] = append([]byte(nil), c...)
			}
		}
		return img
	}
	np := len(s.pending)
	none := make([]bool, np)
	all := make([]bool, np)
	for i := range all {
		all[i] = true
	}
	out = append(out, build(none, 0), build(all, 0), build(all, 3))
	for k := 0; k < n; k++ {
		ap := make([]bool, np)
		if r.Bool() { // a prefix
			p := r.Intn(np + 1)
			for i := 0; i < p; i++ {
				ap[i] = true
			}
		} else { // a subset that keeps each name's operations in order: drop whole names
			drop := map[string]bool{}
			for _, op := range s.pending {
				if r.Chance(0.4) {
					drop[op.name] = true
				}
			}
			for i, op := range s.pending {
				ap[i] = !drop[op.name] && !(op.kind == "rename" && drop[op.to])
			}
		}
		out = append(out, build(ap, r.Intn(4)))
	}
	return out
}

// c15History is what the history child hands to the parent.
type c15History struct {
	Case     string         `json:"case"`
	Engine   gen.EngineSpec `json:"engine"`
	Steps    []string       `json:"steps"`
	Events   []c15EventRec  `json:"events"`
	AckOrder [][]string     `json:"ack_order"`
	Ingested map[string]int `json:"ingested"`
	Dir      string         `json:"dir"`
	Err      string         `json:"err,omitempty"`
}

type c15EventRec struct {
	Idx   int    `json:"idx"`
	Op    string `json:"op"`
	A     string `json:"a"`
	B     string `json:"b"`
	Acked int    `json:"acked"`
	InOp  string `json:"in_op"`
}

const c15Marker = "/verif-c15-marker/"

func init() { AuxHandlers["c15child"] = c15Child }

// c15Child runs one history on a real directory. After every filesystem
// mutation callback it copies the directory to outDir/ev<idx>/ and issues a
// marker stat() so that a syscall trace of this process (strace) can be cut
// at the same points.
func c15Child(args []string) int {
	if len(args) < 3 {
		return 2
	}
	seed, _ := strconv.ParseInt(args[0], 10, 64)
	i, _ := strconv.Atoi(args[1])
	outDir := args[2]
	hist := &c15History{Ingested: map[string]int{}}
	finish := func(code int) int {
		b, _ := json.Marshal(hist)
		os.WriteFile(filepath.Join(outDir, "history.json"), b, 0o644)
		return code
	}
	r := core.NewRand(uint64(seed)).Split("C15", i)
	caseID := fmt.Sprintf("c15_%d_%d", seed, i)
	hist.Case = caseID
	v := gen.NewVocab(r.Split("vocab"))
	tok := gen.Tokenizers[0]
	w := world.New(caseID, world.StoreFS, v, tok)
	defer w.Close()
	hist.Dir = w.Dir
	spec := gen.PickEngineSpec(r.Split("spec"), v, tok)
	spec.Compression = core.Pick(r, []string{"none", "snappy"})
	spec.BufRows = 1000
	spec.BufBytes = 1 << 20
	spec.RGRows = core.Pick(r, []int{6, 12, 1000, 1000})
	spec.RGBytes = 10 << 20
	spec.MergeFiles = core.Pick(r, []int{2, 3, 10})
	spec.MaxFileSize = core.Pick(r, []int{4000, 10 << 30, 10 << 30})
	// merges must really combine files: few partitions, and in most histories no minmax keys
	// (blocks only combine within one partition and one minmax key set)
	switch r.Intn(3) {
	case 0:
		spec.Part = gen.PartFunc{Name: "none"}
	case 1:
		spec.Part = gen.PartFunc{Name: "bucket:2", Fn: gen.PickPartFuncBucket(2)}
	default:
		spec.Part = gen.PartFunc{Name: "bucket:3", Fn: gen.PickPartFuncBucket(3)}
	}
	spec.Partition = spec.Part.Name
	if r.Chance(0.7) {
		spec.MinMax = nil
	}
	spec.IngestBuf = 100
	hist.Engine = spec
	// a thin fault wrapper around the filesystem store: it can make one Write of a chosen flush
	// fail before its effect (the engine then aborts the writer without ever closing it)
	flog := stores.NewLog(&stores.Clock{})
	w.Instrument(flog)
	failWriteAt := -1
	flog.Plan = &stores.Plan{Decide: func(c *stores.Call) stores.Action {
		if c.Kind == "Write" && failWriteAt >= 0 {
			if failWriteAt == 0 {
				failWriteAt = -1
				return stores.Action{Fail: true}
			}
			failWriteAt--
		}
		return stores.Action{}
	}}
	if _, err := w.AddEngine(spec); err != nil {
		hist.Err = err.Error()
		return finish(0)
	}
	e := w.Eng[0]
	acked := 0
	curOp := "idle"
	failNextClose := false
	record := func(op, a, b string) {
		idx := len(hist.Events)
		evDir := filepath.Join(outDir, fmt.Sprintf("ev%d", idx))
		os.MkdirAll(evDir, 0o755)
		for name, c := range snapshotDir(w.Dir) {
			os.WriteFile(filepath.Join(evDir, name), c, 0o600)
		}
		hist.Events = append(hist.Events, c15EventRec{Idx: idx, Op: op, A: a, B: b, Acked: acked, InOp: curOp})
		os.Stat(c15Marker + strconv.Itoa(idx)) // marker for the syscall trace
	}
	bs.VerifSetFSHook(func(op, a, b string) {
		if failNextClose && op == "close" {
			failNextClose = false
			os.Remove(a)
			record("harness.remove", a, "")
			return
		}
		record(op, a, b)
	})
	defer bs.VerifSetFSHook(nil)
	type batch struct {
		recs  []*world.RowRec
		acked bool
		ok    bool
	}
	var batches []*batch
	rr := r.Split("rows")
	ns := r.Range(6, 11)
	for s := 0; s < ns; s++ {
		pickStep := r.Intn(7)
		if s < 2 {
			pickStep = 0
		} else if s == 2 {
			pickStep = 6
		}
		switch pickStep {
		case 0, 1, 2, 3:
			nb := r.Range(1, 2)
			if s < 2 {
				nb = 1 // the first steps are flushes of one small batch each: something to merge
			}
			var bl []*batch
			var chans []chan error
			fail := r.Chance(0.2) && s >= 2
			curOp = "flush"
			if fail {
				curOp = "failflush"
				failNextClose = true
			} else if r.Chance(0.3) && s >= 2 {
				curOp = "failwrite"
				failWriteAt = r.Range(0, 5)
			}
			for k := 0; k < nb; k++ {
				_, recs := makeBatch(rr, w, "normal")
				rows := make([]map[string]any, len(recs))
				for j, rec := range recs {
					rows[j] = rec.Row
				}
				ch := make(chan error, 2)
				if err := e.IngestRows(context.Background(), rows, ch); err != nil {
					hist.Err = err.Error()
					return finish(0)
				}
				b := &batch{recs: recs}
				bl = append(bl, b)
				chans = append(chans, ch)
				batches = append(batches, b)
			}
			ctx, cancel := context.WithTimeout(context.Background(), core.Patience)
			e.Flush(ctx)
			cancel()
			for k, ch := range chans {
				select {
				case err := <-ch:
					bl[k].acked = true
					bl[k].ok = err == nil
					if err == nil {
						acked++
					}
				case <-time.After(core.Patience):
					hist.Err = "no answer 30 s after Flush returned"
					return finish(0)
				}
			}
			failNextClose = false
			failWriteAt = -1
			hist.Steps = append(hist.Steps, fmt.Sprintf("%s(batches=%d)", curOp, nb))
			curOp = "idle"
		default:
			curOp = "merge"
			ctx, cancel := context.WithTimeout(context.Background(), core.Patience)
			_, err := e.Merge(ctx)
			cancel()
			hist.Steps = append(hist.Steps, fmt.Sprintf("merge(err=%v)", err))
			curOp = "idle"
		}
	}
	bs.VerifSetFSHook(nil)
	for _, b := range batches {
		var vs []string
		for _, rec := range b.recs {
			hist.Ingested[rec.VID]++
			vs = append(vs, rec.VID)
		}
		if b.ok {
			hist.AckOrder = append(hist.AckOrder, vs)
		}
	}
	return finish(0)
}

var straceLine = regexp.MustCompile(`^(\d+)\s+(.*)$`)
var pathInAngle = regexp.MustCompile(`<([^<>]+)>`)

// parseTrace cuts a strace -f -y log at the markers: result[k] is the set of
// paths whose fsync/fdatasync returned 0 after marker k-1 and before marker k.
func parseTrace(b []byte, nEvents int) ([]map[string]bool, int) {
	out := make([]map[string]bool, nEvents+1)
	for i := range out {
		out[i] = map[string]bool{}
	}
	cur := 0
	markers := 0
	pending := map[string]string{}
	for _, line := range strings.Split(string(b), "\n") {
		m := straceLine.FindStringSubmatch(line)
		pid, rest := "", line
		if m != nil {
			pid, rest = m[1], m[2]
		}
		if j := strings.Index(rest, c15Marker); j >= 0 {
			num := rest[j+len(c15Marker):]
			if q := strings.IndexAny(num, "\","); q >= 0 {
				num = num[:q]
			}
			if k, err := strconv.Atoi(num); err == nil && k+1 > cur {
				cur = k + 1
				markers++
			}
			continue
		}
		isSync := strings.HasPrefix(rest, "fsync(") || strings.HasPrefix(rest, "fdatasync(")
		if isSync {
			pm := pathInAngle.FindStringSubmatch(rest)
			if pm == nil {
				continue
			}
			if strings.Contains(rest, "<unfinished") {
				pending[pid] = pm[1]
				continue
			}
			if strings.HasSuffix(strings.TrimSpace(rest), "= 0") && cur < len(out) {
				out[cur][pm[1]] = true
			}
			continue
		}
		if strings.HasPrefix(rest, "<... fsync resumed") || strings.HasPrefix(rest, "<... fdatasync resumed") {
			if p, ok := pending[pid]; ok {
				delete(pending, pid)
				if strings.HasSuffix(strings.TrimSpace(rest), "= 0") && cur < len(out) {
					out[cur][p] = true
				}
			}
		}
	}
	return out, markers
}

func runC15(rc *RunCtx, i int) {
	r := rc.CaseRand(i)
	self, _ := os.Executable()
	outDir := scratchDir("c15", fmt.Sprintf("h-%d-%d-%d", rc.Seed, i, os.Getpid()))
	defer os.RemoveAll(outDir)
	args := []string{"--aux", "c15child", fmt.Sprint(rc.Seed), fmt.Sprint(i), outDir}
	tracePath := filepath.Join(outDir, "strace.txt")
	traced := false
	var cmd *exec.Cmd
	if _, err := exec.LookPath("strace"); err == nil && os.Getenv("VERIF_NO_STRACE") == "" {
		cmd = exec.Command("strace", append([]string{"-f", "-y", "-e", "trace=fsync,fdatasync,stat,newfstatat,statx", "-o", tracePath, self}, args...)...)
		traced = true
	} else {
		cmd = exec.Command(self, args...)
	}
	logf, _ := os.Create(filepath.Join(outDir, "child.log"))
	cmd.Stdout, cmd.Stderr = logf, logf
	runErr := runWithTimeout(cmd, core.Patience)
	logf.Close()
	hb, herr := os.ReadFile(filepath.Join(outDir, "history.json"))
	if traced && (runErr != nil || herr != nil) {
		// strace could not run here (ptrace not permitted?): fall back to the untraced child
		traced = false
		os.RemoveAll(outDir)
		os.MkdirAll(outDir, 0o755)
		cmd = exec.Command(self, args...)
		logf, _ = os.Create(filepath.Join(outDir, "child.log"))
		cmd.Stdout, cmd.Stderr = logf, logf
		runErr = runWithTimeout(cmd, core.Patience)
		logf.Close()
		hb, herr = os.ReadFile(filepath.Join(outDir, "history.json"))
	}
	if runErr != nil || herr != nil {
		lb, _ := os.ReadFile(filepath.Join(outDir, "child.log"))
		rc.Violate(i, "child-crash", "", fmt.Sprintf("the history child failed: %v %v", runErr, herr), core.Trunc(string(lb), 6000))
		return
	}
	var hist c15History
	if err := json.Unmarshal(hb, &hist); err != nil || hist.Err != "" {
		rc.Violate(i, "scenario-failed", "", fmt.Sprintf("history: %v %s", err, hist.Err), nil)
		return
	}
	spec := hist.Engine
	caseID := hist.Case
	var events []*fsEvent
	for _, er := range hist.Events {
		events = append(events, &fsEvent{idx: er.Idx, op: er.Op, a: er.A, b: er.B, acked: er.Acked, inOp: er.InOp, files: snapshotDir(filepath.Join(outDir, fmt.Sprintf("ev%d", er.Idx)))})
	}
	var syncFacts []map[string]bool
	if traced {
		tb, _ := os.ReadFile(tracePath)
		var markers int
		syncFacts, markers = parseTrace(tb, len(events))
		n := 0
		for _, m := range syncFacts {
			n += len(m)
		}
		if markers != len(events) {
			// the trace cannot be aligned with the crash points: unusable, not "nothing was synced"
			rc.Res.Note(fmt.Sprintf("strace log shows %d of %d crash-point markers: durability facts taken from the hooks for this history", markers, len(events)))
			syncFacts = nil
			traced = false
		} else {
			rc.Res.Count("histories_traced_with_strace", 1)
			rc.Res.Count("fsync_syscalls_observed", int64(n))
		}
	}
	if !traced {
		rc.Res.Count("histories_durability_from_hooks", 1)
	}
	desc := map[string]any{"case": caseID, "engine": spec, "steps": hist.Steps, "events": len(events), "durability_facts": map[bool]string{true: "fsync syscalls seen by strace", false: "hook callbacks"}[traced]}
	rc.Res.Count("histories", 1)
	rc.Res.Count("crash_points", int64(len(events)))
	ackOrder := hist.AckOrder
	ingestedCount := hist.Ingested
	// merge windows for the known-finding signature: from the rename of a merge output to the next
	// directory fsync after the merge's last source removal (removals are not followed by a
	// directory fsync of their own).
	type window struct{ from, to int }
	var mergeWindows []window
	for k := 0; k < len(events); k++ {
		if events[k].inOp == "merge" && events[k].op == "rename" {
			lastRemove := k
			for j := k; j < len(events) && (events[j].inOp == "merge" || j == k); j++ {
				if events[j].op == "update.remove" || events[j].op == "tombstone.remove" {
					lastRemove = j
				}
			}
			end := len(events)
			for j := lastRemove + 1; j < len(events); j++ {
				if events[j].op == "syncdir" {
					end = j
					break
				}
			}
			mergeWindows = append(mergeWindows, window{k, end})
		}
	}
	rc.Res.Count("merge_commit_windows", int64(len(mergeWindows)))
	inMergeWindow := func(ev int) bool {
		for _, mw := range mergeWindows {
			if ev >= mw.from && ev <= mw.to {
				return true
			}
		}
		return false
	}

	openImage := func(img crashImage, ackedBatches int) bool {
		dir, err := os.MkdirTemp(scratchDir("c15"), "img")
		if err != nil {
			rc.Res.Inconc("mkdtemp: " + err.Error())
			return true
		}
		defer os.RemoveAll(dir)
		for name, b := range img.files {
			os.WriteFile(filepath.Join(dir, name), b, 0o600)
		}
		rc.Res.Eval(1)
		rc.Res.Count("images_opened", 1)
		if strings.HasPrefix(img.variant, "power") {
			rc.Res.Count("images_power_loss", 1)
		}
		ev := events[img.event]
		if ev.inOp != "idle" {
			rc.Res.Nontrivial(caseID, img.event, img.variant)
		}
		wit := func(extra any) map[string]any {
			names := []string{}
			for n, b := range img.files {
				names = append(names, fmt.Sprintf("%s(%d)", n, len(b)))
			}
			sort.Strings(names)
			return map[string]any{"history": desc, "crash_point": map[string]any{"event": img.event, "op": ev.op, "a": filepath.Base(ev.a), "b": filepath.Base(ev.b), "during": ev.inOp, "variant": img.variant}, "image_files": names, "acked_batches": ackedBatches, "detail": extra}
		}
		fs := bs.NewFileSystemDataStore(dir)
		cfg := bs.DefaultBloomSearchEngineConfig()
		fe, err := bs.NewBloomSearchEngine(cfg, fs, fs)
		if err != nil {
			rc.Violate(i, "engine-open-failed", "", err.Error(), wit(nil))
			return false
		}
		// every yielded file must be complete and readable
		if _, err := world.InventoryOf(fs, fs); err != nil {
			rc.Violate(i, "recovered-file-unreadable", "", "after the crash a file the scan yields is not fully readable: "+err.Error(), wit(nil))
			return false
		}
		ctx, cancel := context.WithTimeout(context.Background(), core.Patience)
		res := world.RunQuery(ctx, fe, &bs.Query{})
		cancel()
		if res.QErr != nil || res.Err != nil {
			rc.Violate(i, "recovery-query-failed", "", fmt.Sprintf("match-all query on the recovered directory: %v %v", res.QErr, res.Err), wit(nil))
			return false
		}
		var missing, dups, foreign []string
		for k := 0; k < ackedBatches && k < len(ackOrder); k++ {
			for _, vid := range ackOrder[k] {
				if res.VIDs[vid] == 0 {
					missing = append(missing, vid)
				}
			}
		}
		for vid, n := range res.VIDs {
			if ingestedCount[vid] == 0 {
				foreign = append(foreign, vid)
			} else if n > ingestedCount[vid] {
				dups = append(dups, vid)
			}
		}
		if len(foreign) > 0 {
			rc.Violate(i, "recovered-foreign-row", "", fmt.Sprintf("the recovered directory returns rows that were never ingested: %v", foreign), wit(nil))
			return false
		}
		if len(missing) > 0 {
			sort.Strings(missing)
			rc.Violate(i, "acked-row-lost", "", fmt.Sprintf("%d rows acknowledged before the crash point are missing after recovery (e.g. %s)", len(missing), missing[0]), wit(missing))
			return false
		}
		if len(dups) > 0 {
			sig := ""
			if inMergeWindow(img.event) {
				sig = "fs-merge-commit-window-duplicate"
			}
			sort.Strings(dups)
			rc.Violate(i, "recovered-duplicate-row", sig, fmt.Sprintf("%d rows appear more often than they were ingested after recovery (e.g. %s)", len(dups), dups[0]), wit(dups))
			return sig != ""
		}
		return true
	}

	sh := newShadow()
	pr := r.Split("power")
	nPower := 2
	if rc.Tier == "thorough" {
		nPower = 5
	}
	var prev map[string][]byte
	for k, ev := range events {
		var facts map[string]bool
		if syncFacts != nil {
			facts = syncFacts[k]
		}
		sh.apply(ev, facts)
		rc.Res.Count("event."+ev.op, 1)
		if !openImage(crashImage{event: k, variant: "process-crash", files: ev.files}, ev.acked) {
			return
		}
		// torn write: a .tmp that grew since the previous event, cut in the middle of the delta
		if prev != nil {
			for name, now := range ev.files {
				if was, ok := prev[name]; ok && strings.HasSuffix(name, ".tmp") && len(now) > len(was)+1 {
					torn := map[string][]byte{}
					for n, b := range ev.files {
						torn[n] = b
					}
					torn[name] = now[:len(was)+(len(now)-len(was))/2]
					if !openImage(crashImage{event: k, variant: "torn-write", files: torn}, ev.acked) {
						return
					}
				}
			}
		}
		for pi, img := range sh.powerLossImages(pr, nPower) {
			if !openImage(crashImage{event: k, variant: fmt.Sprintf("power-loss-%d", pi), files: img}, ev.acked) {
				return
			}
		}
		prev = ev.files
	}
	if i < 2 {
		kinds := map[string]int{}
		for _, ev := range events {
			kinds[ev.op]++
		}
		rc.Res.Sample(map[string]any{"history": desc, "events_by_kind": kinds, "acked_batches": len(ackOrder), "merge_windows": len(mergeWindows)})
	}
}
