package mon

import (
	"context"
	"errors"
	"fmt"
	"strings"
	"sync"
	"sync/atomic"
	"time"

	bs "github.com/danthegoodman1/bloomsearch"

	"verifharness/core"
	"verifharness/gen"
	"verifharness/stores"
	"verifharness/world"
)

func init() {
	Register(&Check{
		Spec: core.Spec{ID: "C09", Level: "exploration",
			Rule:        "case = started engine (IngestBufferSize 1..64, row-count flush trigger 1..50, fixed batch size) whose store is shut at a gate (first CreateFile, Write, Close or Update); 1-16 producers offer 20x the configured bound in batches with short call deadlines. Sampled at every IngestRows return and every answer: accepted - answered. It must never exceed IngestBufferSize + 4*ceil(trigger/batchRows) + 2 (ingest channel + one flush's worth of batches in each of: open buffer, request blocked in the enqueue, queue slot, flush in progress), and once saturated further IngestRows calls must end with their context error. A count, not a timing. non-trivial = case that reached saturation (producers timed out); distinct = distinct (buffer size, trigger, batch size, producers, gate position)",
			Assumptions: []string{"only the row-count trigger is active (byte/partition/time limits set out of reach) so 'a flush's worth of batches' is ceil(trigger/batchRows)"},
			Floors:      map[string]int64{"cases_saturated": 25, "ingest_calls": 1200}},
		Cases:       func(t string) int { return nQueries(t, 48, 1200) },
		Run:         runC09,
		RaceMatters: true,
	})
	Register(&Check{
		Spec: core.Spec{ID: "C10", Level: "exploration",
			Rule:        "case = started (or late-started) engine, one sequential client, no Flush and no Stop until the verdict. Limit-trigger cases (MaxBufferedTime = 1h): the harness keeps its own model of the buffers (rows, len(json)+4 bytes, per-partition rows/bytes) and, whenever a limit is reached by an accepted batch, requires every buffered batch to be answered without further input; time-trigger cases (MaxBufferedTime 150-400 ms, limits out of reach): a batch must be answered with no further calls. Verdict thresholds are 10 s beyond the expected instant (correct code answers within ~0.1 s, broken code never). non-trivial = case with at least one predicted automatic flush; distinct = distinct (limits, batch shapes)",
			Assumptions: []string{"buffered bytes of a row = len(marshaled row) + 4 (length prefix), the engine's documented accounting", "if every outstanding batch is found answered the model resets (an earlier-than-required flush is not a violation)"},
			Floors:      map[string]int64{"auto_flushes_predicted": 100, "time_trigger_cases": 10}},
		Cases: func(t string) int { return nQueries(t, 80, 1600) },
		Run:   runC10,
	})
}

func runC09(rc *RunCtx, i int) {
	r := rc.CaseRand(i)
	ingestBuf := core.Pick(r, []int{1, 2, 4, 8, 16, 64})
	trigger := core.Pick(r, []int{1, 2, 5, 10, 25, 50})
	batchRows := core.Pick(r, []int{1, 1, 2, 3, 7})
	producers := core.Pick(r, []int{1, 2, 4, 8, 16})
	// partitioning of the offered batches: none, a small fixed set, or a fresh partition id for
	// every batch (time-bucket / per-request keys): flush requests then never share a partition
	partMode := core.Pick(r, []string{"none", "none", "fixed", "fresh"})
	emptyMix := i%3 == 2 // a third of the offered batches are empty
	var batchSeq atomic.Int64
	env, err := newLifecycleEnv(rc, i, r, func(s *gen.EngineSpec) {
		s.IngestBuf = ingestBuf
		s.BufRows = trigger
		// The byte limits stay out of reach of the batches (a batch is well under 64 KiB), but
		// their values and their ratio vary over orders of magnitude: a queue or buffer whose
		// size is derived from them must not widen the bound.
		s.BufBytes = core.Pick(r, []int{1 << 30, 1 << 30, 64 << 20, 1 << 40})
		s.RGRows = 1 << 30
		s.RGBytes = core.Pick(r, []int{1 << 30, 1 << 20, 256 << 10, 1 << 30})
		s.Part = gen.PartFunc{Name: "none"}
		s.Partition = "none"
		if partMode != "none" {
			s.Part = gen.PartFunc{Name: "byKey:pk(" + partMode + ")", Fn: func(row map[string]any) string { v, _ := row["pk"].(string); return v }}
			s.Partition = s.Part.Name
		}
	})
	if err != nil {
		rc.Violate(i, "scenario-failed", "", err.Error(), nil)
		return
	}
	// a third of the cases also let buffers age past a short MaxBufferedTime while the store is
	// stalled (time-triggered flushes only add flush requests, so the bound is unchanged)
	maxBuf := time.Hour
	if i%3 == 1 {
		maxBuf = time.Duration(r.Range(15, 60)) * time.Millisecond
	}
	cfg09 := env.spec.Config()
	cfg09.MaxBufferedTime = maxBuf
	e, err := bs.NewBloomSearchEngine(cfg09, env.w.IMeta, env.w.IData)
	if err != nil {
		rc.Violate(i, "scenario-failed", "", err.Error(), nil)
		return
	}
	env.w.Eng[0] = e
	e.Start()
	defer env.w.Close()
	gateKind := core.Pick(r, []string{"CreateFile", "Write", "Close", "Update"})
	gate := stores.NewGate(false)
	defer gate.Open()
	env.log.Plan = &stores.Plan{Decide: func(c *stores.Call) stores.Action {
		if c.Kind == gateKind {
			return stores.Action{Gate: gate}
		}
		return stores.Action{}
	}}
	pm := installPoints(r.Split("points"), true, 200)
	defer pm.uninstall(rc.Res)
	per := (trigger + batchRows - 1) / batchRows
	bound := int64(ingestBuf + 4*per + 2)
	offers := int(bound) * 20
	desc := map[string]any{"case": env.w.Case, "ingest_buffer": ingestBuf, "flush_trigger_rows": trigger, "batch_rows": batchRows, "producers": producers, "gate": gateKind, "partitions": partMode, "every_third_batch_empty": emptyMix, "bound": bound, "offers": offers, "max_buffered_time": maxBuf.String()}

	var accepted, answered, maxOut atomic.Int64
	var chans []chan error
	var cmu sync.Mutex
	// drain counts every answer that already sits in its (buffered) done channel. sample()
	// drains first, so "outstanding" never includes a batch whose answer has been delivered:
	// a lagging receiver goroutine on a loaded machine must not inflate the gauge (it once did:
	// 215 empty batches, each acknowledged on acceptance, were read as 201 outstanding).
	drain := func() {
		cmu.Lock()
		for k := 0; k < len(chans); k++ {
			select {
			case <-chans[k]:
				answered.Add(1)
				chans[k] = chans[len(chans)-1]
				chans = chans[:len(chans)-1]
				k--
			default:
			}
		}
		cmu.Unlock()
	}
	sample := func() {
		drain()
		out := accepted.Load() - answered.Load()
		for {
			m := maxOut.Load()
			if out <= m || maxOut.CompareAndSwap(m, out) {
				return
			}
		}
	}
	stopRecv := make(chan struct{})
	var recvWG sync.WaitGroup
	recvWG.Add(1)
	go func() { // answers are counted as they sit in the buffered channels
		defer recvWG.Done()
		for {
			select {
			case <-stopRecv:
				return
			default:
			}
			sample()
			time.Sleep(200 * time.Microsecond)
		}
	}()
	var offered, timedOut, calls atomic.Int64
	var wg sync.WaitGroup
	var rowMu sync.Mutex
	rr := r.Split("rows")
	var otherErr atomic.Value
	for p := 0; p < producers; p++ {
		wg.Add(1)
		go func() {
			defer wg.Done()
			consecutive := 0
			for offered.Add(1) <= int64(offers) && consecutive < 3 {
				rowMu.Lock()
				rows := make([]map[string]any, batchRows)
				bn := batchSeq.Add(1)
				if emptyMix && bn%3 == 0 {
					rows = rows[:0] // an empty batch: no rows and no bytes, but a waiter all the same
				}
				for k := range rows {
					rows[k] = env.w.NewRowWith(rr, 0, func(row map[string]any) {
						switch partMode {
						case "fixed":
							row["pk"] = fmt.Sprintf("p%d", bn%3)
						case "fresh":
							row["pk"] = fmt.Sprintf("p%d", bn)
						}
					}).Row
				}
				rowMu.Unlock()
				ch := make(chan error, 2)
				if maxBuf < time.Hour {
					time.Sleep(time.Duration(maxBuf) / 4) // slow producers: buffers age before they fill
				}
				ctx, cancel := context.WithTimeout(context.Background(), 80*time.Millisecond)
				err := e.IngestRows(ctx, rows, ch)
				cancel()
				calls.Add(1)
				if err == nil {
					cmu.Lock()
					chans = append(chans, ch)
					cmu.Unlock()
					accepted.Add(1)
					consecutive = 0
				} else if errors.Is(err, context.DeadlineExceeded) {
					timedOut.Add(1)
					consecutive++
				} else {
					otherErr.Store(err.Error())
					return
				}
				sample()
			}
		}()
	}
	wg.Wait()
	sample()
	saturated := timedOut.Load() > 0
	rc.Res.Eval(1)
	rc.Res.Count("ingest_calls", calls.Load())
	rc.Res.Max("max.outstanding_minus_bound", maxOut.Load()-bound)
	if saturated {
		rc.Res.Count("cases_saturated", 1)
		rc.Res.Nontrivial(ingestBuf, trigger, batchRows, producers, gateKind)
	}
	desc["accepted"], desc["answered"], desc["max_outstanding"], desc["timed_out_calls"] = accepted.Load(), answered.Load(), maxOut.Load(), timedOut.Load()
	fail := func(kind, msg string) {
		close(stopRecv)
		recvWG.Wait()
		rc.Violate(i, kind, "", msg, desc)
	}
	if v := otherErr.Load(); v != nil {
		fail("unexpected-ingest-error", "IngestRows returned "+v.(string))
		return
	}
	if maxOut.Load() > bound {
		fail("unbounded-acceptance", fmt.Sprintf("with the store stalled at %s, %d batches were accepted but unanswered at once; the configuration bounds this at %d (ingest buffer %d + 4 x %d + 2)", gateKind, maxOut.Load(), bound, ingestBuf, per))
		return
	}
	if !saturated {
		fail("never-blocked", fmt.Sprintf("%d batches (20x the bound) were all accepted while the store was stalled: IngestRows never blocked", accepted.Load()))
		return
	}
	// saturated: one more call must end with its context error
	ctx, cancel := context.WithTimeout(context.Background(), 150*time.Millisecond)
	lastCh := make(chan error, 2)
	err = e.IngestRows(ctx, []map[string]any{env.w.NewRow(rr, 0).Row}, lastCh)
	cancel()
	if err == nil {
		cmu.Lock()
		chans = append(chans, lastCh)
		cmu.Unlock()
		accepted.Add(1)
		sample()
		if maxOut.Load() > bound {
			fail("unbounded-acceptance", fmt.Sprintf("after saturation another batch was accepted: %d outstanding > bound %d", maxOut.Load(), bound))
			return
		}
	}
	// the pipeline is saturated: empty batches (no rows, no bytes) must not slip past the bound
	// either; they are waiters like any other
	if emptyMix {
		extra := 0
		for k := int64(0); k < 6*bound; k++ {
			ectx, ecancel := context.WithTimeout(context.Background(), 15*time.Millisecond)
			ch := make(chan error, 2)
			eerr := e.IngestRows(ectx, []map[string]any{}, ch)
			ecancel()
			if eerr == nil {
				extra++
				cmu.Lock()
				chans = append(chans, ch)
				cmu.Unlock()
				accepted.Add(1)
			}
			sample()
		}
		rc.Res.Count("empty_batches_offered_after_saturation", 6*bound)
		if maxOut.Load() > bound {
			desc["empty_batches_accepted_after_saturation"] = extra
			fail("unbounded-acceptance", fmt.Sprintf("with the pipeline saturated (store stalled at %s), %d further empty batches were accepted; %d batches outstanding at once, bound %d", gateKind, extra, maxOut.Load(), bound))
			return
		}
	}
	// release and drain
	gate.Open()
	fctx, fcancel := context.WithTimeout(context.Background(), core.Patience)
	e.Flush(fctx)
	fcancel()
	time.Sleep(2 * time.Millisecond)
	close(stopRecv)
	recvWG.Wait()
	if i < 4 {
		rc.Res.Sample(desc)
	}
}

type c10Batch struct {
	ch   chan error
	recs []*world.RowRec
	at   time.Time
}

func runC10(rc *RunCtx, i int) {
	r := rc.CaseRand(i)
	timeCase := i%5 == 4
	// mixed: limits reachable AND a short MaxBufferedTime: a tail batch left below the limits
	// after limit-triggered flushes must still be flushed by the time trigger
	mixedCase := i%5 == 2
	lateStart := i%7 == 3
	maxBuf := time.Hour
	if timeCase || mixedCase {
		maxBuf = time.Duration(r.Range(150, 400)) * time.Millisecond
	}
	var spec gen.EngineSpec
	env, err := newLifecycleEnv(rc, i, r, func(s *gen.EngineSpec) {
		if timeCase {
			s.BufRows, s.BufBytes, s.RGRows, s.RGBytes = 1<<30, 1<<30, 1<<30, 1<<30
		} else {
			s.BufRows = core.Pick(r, []int{1, 2, 5, 9, 30, 1 << 30})
			s.BufBytes = core.Pick(r, []int{1, 300, 1500, 8000, 1 << 30})
			s.RGRows = core.Pick(r, []int{1, 3, 7, 20, 1 << 30})
			s.RGBytes = core.Pick(r, []int{1, 250, 1200, 6000, 1 << 30})
		}
		s.IngestBuf = 100
		spec = *s
	})
	if err != nil {
		rc.Violate(i, "scenario-failed", "", err.Error(), nil)
		return
	}
	cfg := spec.Config()
	cfg.MaxBufferedTime = maxBuf
	e, err := bs.NewBloomSearchEngine(cfg, env.w.IMeta, env.w.IData)
	if err != nil {
		rc.Violate(i, "scenario-failed", "", err.Error(), nil)
		return
	}
	env.w.Eng[0] = e
	env.w.Specs[0] = spec
	if !lateStart {
		e.Start()
	}
	defer env.w.Close()
	desc := map[string]any{"case": env.w.Case, "engine": spec, "max_buffered_time": maxBuf.String(), "late_start": lateStart, "mixed": mixedCase}
	rr := r.Split("rows")
	var pending []*c10Batch
	// model of the engine's buffers
	rows, bytes := 0, 0
	prow, pbytes := map[string]int{}, map[string]int{}
	reset := func() {
		rows, bytes = 0, 0
		prow, pbytes = map[string]int{}, map[string]int{}
		pending = nil
	}
	var must []*c10Batch // batches the model says a limit-triggered flush covers
	answeredAll := func(bs []*c10Batch) bool {
		for _, b := range bs {
			if len(b.ch) == 0 {
				return false
			}
		}
		return true
	}
	allAnswered := func() bool { return answeredAll(pending) }
	waitFor := func(bs []*c10Batch, limit time.Duration) bool {
		dl := time.Now().Add(limit)
		for time.Now().Before(dl) {
			if answeredAll(bs) {
				return true
			}
			time.Sleep(500 * time.Microsecond)
		}
		return answeredAll(bs)
	}
	waitAll := func(limit time.Duration) bool { return waitFor(pending, limit) }
	var steps []string
	nb := r.Range(3, 14)
	if timeCase {
		nb = r.Range(1, 3)
	}
	// A batch that is rejected (unmarshalable row) or empty while nothing is buffered leaves
	// nothing behind -- not even a running MaxBufferedTime clock or a disarmed timer. It is sent
	// now and then, followed by a pause longer than any internal tick.
	prelude := func(where string) {
		kind := core.Pick(r, []string{"unmarshalable", "unmarshalable", "empty"})
		rows, _ := makeBatch(rr, env.w, kind)
		ch := make(chan error, 2)
		if err := e.IngestRows(context.Background(), rows, ch); err != nil {
			return
		}
		time.Sleep(time.Duration(r.Range(130, 260)) * time.Millisecond)
		steps = append(steps, where+":"+kind+"-batch-on-empty-buffer+pause")
		rc.Res.Count("rejected_or_empty_batches_on_empty_buffer", 1)
	}
	for k := 0; k < nb; k++ {
		if len(pending) > 0 && allAnswered() {
			reset() // the engine flushed (possibly earlier than required): buffers are empty
		}
		if rows == 0 && len(pending) == 0 && ((timeCase && i%10 == 9) || r.Chance(0.08)) {
			prelude(fmt.Sprintf("before-batch-%d", k))
		}
		n := r.Range(1, 6)
		if r.Chance(0.1) {
			n = r.Range(6, 25)
		}
		b := &c10Batch{ch: make(chan error, 2)}
		var rws []map[string]any
		for j := 0; j < n; j++ {
			rec := env.w.NewRow(rr, 0)
			b.recs = append(b.recs, rec)
			rws = append(rws, rec.Row)
		}
		if err := e.IngestRows(context.Background(), rws, b.ch); err != nil {
			rc.Violate(i, "unexpected-ingest-error", "", err.Error(), desc)
			return
		}
		b.at = time.Now()
		pending = append(pending, b)
		rc.Res.Eval(1)
		trig := ""
		for _, rec := range b.recs {
			sz := len(rec.JSON) + 4
			rows++
			bytes += sz
			prow[rec.Part]++
			pbytes[rec.Part] += sz
		}
		for p, c := range prow {
			if c >= spec.RGRows {
				trig = fmt.Sprintf("partition %q holds %d rows >= MaxRowGroupRows %d", p, c, spec.RGRows)
			}
		}
		for p, c := range pbytes {
			if trig == "" && c >= spec.RGBytes {
				trig = fmt.Sprintf("partition %q holds %d bytes >= MaxRowGroupBytes %d", p, c, spec.RGBytes)
			}
		}
		if trig == "" && rows >= spec.BufRows {
			trig = fmt.Sprintf("%d buffered rows >= MaxBufferedRows %d", rows, spec.BufRows)
		}
		if trig == "" && bytes >= spec.BufBytes {
			trig = fmt.Sprintf("%d buffered bytes >= MaxBufferedBytes %d", bytes, spec.BufBytes)
		}
		steps = append(steps, fmt.Sprintf("batch(rows=%d)->%s", n, map[bool]string{true: "flush", false: "buffer"}[trig != ""]))
		if trig != "" && !timeCase {
			// the flush this batch triggers covers everything buffered so far
			rc.Res.Count("auto_flushes_predicted", 1)
			must = append(must, pending...)
			reset()
		}
		if lateStart && k == nb/2 {
			e.Start()
			lateStart = false
			steps = append(steps, "Start")
		}
		if len(must) > 0 && !lateStart {
			if !waitFor(must, 10*time.Second) {
				desc["steps"] = steps
				rc.Violate(i, "limit-reached-no-flush", "", fmt.Sprintf("a configured limit was reached (last: %s) but the batches buffered at that point were not answered within 10 s with no Flush/Stop", trig), desc)
				return
			}
			must = nil
		}
	}
	if lateStart {
		e.Start()
		steps = append(steps, "Start")
		if len(must) > 0 && !waitFor(must, 10*time.Second) {
			desc["steps"] = steps
			rc.Violate(i, "limit-reached-no-flush", "", "batches accepted before Start reached a configured limit but were not answered within 10 s of Start with no Flush/Stop", desc)
			return
		}
	}
	desc["steps"] = steps
	if mixedCase && !timeCase && len(pending) > 0 {
		rc.Res.Count("mixed_tail_cases", 1)
		if !waitAll(maxBuf + 10*time.Second) {
			rc.Violate(i, "time-trigger-no-flush", "", fmt.Sprintf("after limit-triggered flushes, %d tail batches below the limits were accepted, no Flush or Stop was called, and they were not answered within MaxBufferedTime (%s) + 10 s", len(pending), maxBuf), desc)
			return
		}
	}
	if timeCase && len(pending) > 0 {
		rc.Res.Count("time_trigger_cases", 1)
		rc.Res.Nontrivial("time", maxBuf, len(pending), fmt.Sprint(steps))
		if !waitAll(maxBuf + 10*time.Second) {
			rc.Violate(i, "time-trigger-no-flush", "", fmt.Sprintf("%d batches were accepted, no Flush or Stop was called, and they were not answered within MaxBufferedTime (%s) + 10 s", len(pending), maxBuf), desc)
			return
		}
		for _, b := range pending {
			if el := time.Since(b.at); el > maxBuf+5*time.Second {
				rc.Res.Note(fmt.Sprintf("time trigger answered after %s (MaxBufferedTime %s)", el, maxBuf))
			}
		}
	} else if !timeCase {
		rc.Res.Nontrivial("limits", spec.BufRows, spec.BufBytes, spec.RGRows, spec.RGBytes, fmt.Sprint(steps))
	}
	if i < 4 {
		rc.Res.Sample(desc)
	}
}

var _ = strings.Contains
