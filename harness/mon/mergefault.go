package mon

import (
	"context"
	"errors"
	"fmt"
	"os"
	"path/filepath"
	"sort"
	"strings"
	"sync"
	"time"

	bs "github.com/danthegoodman1/bloomsearch"

	"verifharness/core"
	"verifharness/gen"
	"verifharness/stores"
	"verifharness/world"
)

func init() {
	Register(&Check{
		Spec: core.Spec{ID: "C13", Level: "fault_enumeration",
			Rule:        "case = a population of files (several engines' worth, multi-group where limits allow) in an in-memory DataStore (with/without Abort, real or deferred deletion) + MemoryMetaStore, or (every fourth population) in a FileSystemDataStore used as both stores, each run on a fresh copy of the directory, where the directory itself is the visible content. A fault-free Merge from a deep copy records its n store calls (iterator start/yields, CreateFile, OpenFile, Seek, Read, Write, Close, Update, TombstoneFile); then one Merge per position i from an identical deep copy with call i failing (Close and TombstoneFile also 'effect applied, then error'), one per cleanup call a failure provoked, PRNG pairs, a context cancelled at a PRNG position, and a second Merge issued while the first is held at a gate. Each run is classified by whether its MetaStore.Update applied and checked for the all-or-nothing contract and the return-value contract. evaluations = Merge runs; non-trivial = run whose fault was reached; distinct = distinct (population, fault positions); exhaustive over single positions of each explored population",
			Assumptions: []string{"MetaStore.Update is atomic: an injected Update failure applies nothing", "the sequential Merge of a fixed population issues a deterministic kind sequence (map-order changes only permute calls of the same kind)"},
			Floors:      map[string]int64{"populations": 4, "runs_with_fault_reached": 300, "runs_committed": 30, "runs_not_committed": 150, "concurrent_merge_checks": 4}},
		Cases: func(t string) int { return nQueries(t, 32, 400) },
		Run:   runC13,
	})
}

type c13Fault struct {
	Pos    int  `json:"pos"`
	Post   bool `json:"post_effect,omitempty"`
	Cancel bool `json:"cancel_ctx,omitempty"`
	// CtxErr: the call fails with an error wrapping the context error (the Merge context is
	// cancelled at that moment and the store reports it, nothing applied).
	CtxErr bool   `json:"fails_with_context_error,omitempty"`
	Kind   string `json:"kind,omitempty"`
}

type c13State struct {
	ptrs []string
	rows map[string]int
}

func metaPointers(meta bs.MetaStore) []string {
	var out []string
	for f, err := range meta.GetMaybeFilesForQuery(context.Background(), nil) {
		if err != nil {
			break
		}
		out = append(out, string(f.PointerBytes))
	}
	sort.Strings(out)
	return out
}

func cloneMeta(src bs.MetaStore) *bs.MemoryMetaStore {
	dst := bs.NewMemoryMetaStore()
	var ws []bs.WriteOperation
	for f, err := range src.GetMaybeFilesForQuery(context.Background(), nil) {
		if err != nil {
			break
		}
		md := f.Metadata
		ws = append(ws, bs.WriteOperation{FileMetadata: &md, FilePointerBytes: f.PointerBytes})
	}
	dst.Update(context.Background(), ws, nil)
	return dst
}

type c13Run struct {
	calls     []stores.Call
	reached   int
	committed bool
	viol      string
	kind      string
}

func runC13(rc *RunCtx, i int) {
	r := rc.CaseRand(i)
	caseID := fmt.Sprintf("%s%d_%d", strings.ToLower(rc.ID), rc.Seed, i)
	// ---- population
	// Every fourth population lives in a FileSystemDataStore used as both stores: there the
	// directory is the MetaStore, so an uncommitted merge output that is left published is
	// visible content (with a separate MetaStore it would only be an unreferenced leftover).
	fsBoth := i%4 == 3
	o := world.BuildOpts{Kind: world.StoreMem, NoMerge: true, MaxRows: 90, ManyFiles: i%2 == 1}
	if fsBoth {
		o.Kind = world.StoreFS
	}
	w, d, err := world.Build(r.Split("pop"), caseID, o)
	if err != nil {
		rc.Violate(i, "scenario-failed", "", err.Error(), nil)
		return
	}
	defer w.Close()
	if !fsBoth {
		w.Mem.WithAbort = r.Chance(0.6)
		w.Mem.RealDelete = r.Chance(0.6)
	}
	norm := func(p string) string {
		if fsBoth {
			return filepath.Base(p)
		}
		return p
	}
	normAll := func(ps []string) []string {
		out := make([]string, len(ps))
		for k, p := range ps {
			out[k] = norm(p)
		}
		sort.Strings(out)
		return out
	}
	var copies []string
	defer func() {
		for _, c := range copies {
			os.RemoveAll(c)
		}
	}()
	mspec := gen.PickEngineSpec(r.Split("mergespec"), w.Vocab, w.Tok)
	mspec.RGRows = core.Pick(r, []int{4, 8, 20, 10000})
	mspec.RGBytes = core.Pick(r, []int{1500, 6000, 50000, 10 << 20})
	mspec.MaxFileSize = core.Pick(r, []int{3000, 20000, 10 << 30})
	mspec.MergeFiles = core.Pick(r, []int{2, 3, 4, 10})
	d.Engines = append(d.Engines, mspec)
	baseInv, err := w.Inventory()
	if err != nil {
		rc.Violate(i, "inventory-failed", "", err.Error(), d)
		return
	}
	before := c13State{ptrs: normAll(metaPointers(w.Meta)), rows: vidMultiset(baseInv)}
	desc := map[string]any{"population": d, "merge_engine": mspec, "files": len(before.ptrs), "fs_as_both_stores": fsBoth}
	if !fsBoth {
		desc["with_abort"], desc["real_delete"] = w.Mem.WithAbort, w.Mem.RealDelete
	}

	gateKind := "CreateFile" // which first call of the gated run is held
	exec := func(faults []c13Fault, gateCreate *stores.Gate) (*c13Run, *bs.BloomSearchEngine, *stores.Log, func() (*bs.MergeStats, error)) {
		var data bs.DataStore
		var meta bs.MetaStore
		if fsBoth {
			dir, cerr := copyDir(w.Dir)
			if cerr != nil {
				return &c13Run{viol: "copy: " + cerr.Error()}, nil, nil, nil
			}
			// one copy at a time is enough: drop the previous ones
			for _, c := range copies {
				os.RemoveAll(c)
			}
			copies = append(copies[:0], dir)
			fs := bs.NewFileSystemDataStore(dir)
			data, meta = fs, fs
		} else {
			data = w.Mem.Clone()
			meta = cloneMeta(w.Meta)
		}
		log := stores.NewLog(&stores.Clock{})
		idata := stores.NewInstrDataStore(data, log)
		imeta := stores.NewInstrMetaStore(meta, log)
		run := &c13Run{}
		ctx, cancel := context.WithCancel(context.Background())
		pos := 0
		var pmu sync.Mutex
		log.Plan = &stores.Plan{Decide: func(c *stores.Call) stores.Action {
			pmu.Lock()
			defer pmu.Unlock()
			p := pos
			pos++
			if gateCreate != nil && c.Kind == gateKind && c.N == 0 {
				return stores.Action{Gate: gateCreate}
			}
			for _, f := range faults {
				if f.Pos == p {
					run.reached++
					if f.Cancel {
						cancel()
						return stores.Action{}
					}
					if f.CtxErr {
						cancel()
						return stores.Action{Fail: true, Err: fmt.Errorf("store gave up: %w", context.Canceled)}
					}
					return stores.Action{Fail: true, PostEffect: f.Post && (c.Kind == "Close" || c.Kind == "TombstoneFile" || c.Kind == "Abort")}
				}
			}
			return stores.Action{}
		}}
		e, err := bs.NewBloomSearchEngine(mspec.Config(), imeta, idata)
		if err != nil {
			run.viol = err.Error()
			cancel()
			return run, nil, log, nil
		}
		do := func() (*bs.MergeStats, error) {
			defer cancel()
			stats, merr := e.Merge(ctx)
			run.calls = log.Snapshot()
			// ---- classification
			upds := imeta.UpdateRecs()
			var upd *stores.UpdateRec
			if len(upds) > 1 {
				run.viol = fmt.Sprintf("Merge issued %d MetaStore.Update calls", len(upds))
				return stats, merr
			}
			if len(upds) == 1 {
				upd = &upds[0]
				run.committed = upd.Applied
			}
			after := normAll(metaPointers(meta))
			inv, ierr := world.InventoryOf(meta, data)
			if ierr != nil {
				run.viol = "after the Merge a file referenced by the MetaStore is not readable: " + ierr.Error()
				run.kind = "referenced-file-unreadable"
				return stats, merr
			}
			cleanupFaulted := false
			for _, c := range run.calls {
				if (c.Kind == "TombstoneFile" || c.Kind == "Abort") && c.Err != "" {
					cleanupFaulted = true
				}
			}
			// With the directory as MetaStore a cleanup call that the harness itself made fail leaves
			// the output published: nothing the engine could do (the store pair has no atomic commit,
			// see the C14/C15 known findings). Content is compared whenever cleanup was allowed to work.
			if !sameCounts(before.rows, vidMultiset(inv)) && !(fsBoth && cleanupFaulted) {
				run.viol = fmt.Sprintf("visible rows changed (committed=%v, err=%v): %d distinct rows before, %d after", run.committed, merr, len(before.rows), len(vidMultiset(inv)))
				run.kind = "visible-content-changed"
				return stats, merr
			}
			if run.committed {
				if merr != nil && !(errors.Is(merr, bs.ErrPostCommitCleanup) && stats != nil) {
					run.viol = fmt.Sprintf("the merge committed (MetaStore.Update applied) but Merge returned stats=%v err=%v", stats != nil, merr)
					run.kind = "committed-but-error"
					return stats, merr
				}
				ref := map[string]bool{}
				for _, p := range after {
					ref[p] = true
				}
				for _, p := range upd.Writes {
					p = norm(p)
					if !ref[p] {
						run.viol = "committed output " + p + " is not referenced"
						run.kind = "output-unreferenced"
					}
				}
				for _, p := range upd.Deletes {
					p = norm(p)
					if ref[p] {
						run.viol = "merged source " + p + " is still referenced after the commit"
						run.kind = "source-still-referenced"
					}
				}
				tombFailed := false
				srcs := map[string]bool{}
				for _, p := range upd.Deletes {
					srcs[norm(p)] = true
				}
				for _, c := range run.calls {
					if c.Kind == "TombstoneFile" && srcs[norm(c.File)] {
						if c.Start < upd.End {
							run.viol = fmt.Sprintf("source %s was tombstoned (tick %d) before the MetaStore commit completed (tick %d)", c.File, c.Start, upd.End)
							run.kind = "source-tombstoned-before-commit"
						}
						if c.Err != "" {
							tombFailed = true
						}
					}
				}
				if merr != nil && !tombFailed {
					run.viol = "Merge returned ErrPostCommitCleanup but no source tombstone failed: " + merr.Error()
					run.kind = "cleanup-error-without-failure"
				}
				if merr == nil && tombFailed {
					run.viol = "a source tombstone failed after the commit but Merge returned nil"
					run.kind = "cleanup-failure-swallowed"
				}
			} else {
				if strings.Join(after, ",") != strings.Join(before.ptrs, ",") && !(fsBoth && cleanupFaulted) {
					run.viol = fmt.Sprintf("nothing was committed but the MetaStore changed: %v -> %v", before.ptrs, after)
					run.kind = "metastore-changed-without-commit"
					return stats, merr
				}
				if errors.Is(merr, bs.ErrPostCommitCleanup) {
					run.viol = "Merge returned ErrPostCommitCleanup although nothing was committed"
					run.kind = "cleanup-error-without-commit"
					return stats, merr
				}
				if merr == nil && (run.reached > 0 || upd != nil) {
					run.viol = fmt.Sprintf("a store call failed (or the context was cancelled), nothing was committed, but Merge returned nil (update attempted=%v)", upd != nil)
					run.kind = "nil-error-without-commit"
					return stats, merr
				}
				// sources must never be tombstoned without a commit
				srcSet := map[string]bool{}
				for _, p := range before.ptrs {
					srcSet[p] = true
				}
				for _, c := range run.calls {
					if c.Kind == "TombstoneFile" && srcSet[norm(c.File)] {
						run.viol = "source " + c.File + " was tombstoned although the merge did not commit"
						run.kind = "source-tombstoned-without-commit"
					}
				}
			}
			return stats, merr
		}
		return run, e, log, do
	}

	base, _, _, do := exec(nil, nil)
	if do == nil {
		rc.Violate(i, "scenario-failed", "", base.viol, desc)
		return
	}
	_, berr := do()
	rc.Res.Eval(1)
	if base.viol != "" || berr != nil {
		rc.Violate(i, "fault-free-merge-wrong", base.kind, fmt.Sprintf("%s (err=%v)", base.viol, berr), desc)
		return
	}
	if !base.committed {
		rc.Res.Count("populations_without_merge", 1)
		return // nothing to enumerate: the limits allow no merge
	}
	rc.Res.Count("populations", 1)
	n := len(base.calls)
	rc.Res.Count("positions", int64(n))
	kinds := map[string]int{}
	for _, c := range base.calls {
		kinds[c.Kind]++
	}
	tally := func(run *c13Run, fs []c13Fault) bool {
		rc.Res.Eval(1)
		if run.reached > 0 {
			rc.Res.Count("runs_with_fault_reached", 1)
			rc.Res.Nontrivial(caseID, fmt.Sprintf("%+v", fs))
		}
		if run.committed {
			rc.Res.Count("runs_committed", 1)
		} else {
			rc.Res.Count("runs_not_committed", 1)
		}
		if run.viol != "" {
			for k := range fs {
				if fs[k].Pos < len(base.calls) && fs[k].Kind == "" {
					fs[k].Kind = base.calls[fs[k].Pos].Kind
				}
			}
			rc.Violate(i, "merge-not-all-or-nothing", run.kind, run.viol, map[string]any{"history": desc, "faults": fs, "fault_free_calls": kinds, "calls_tail": tailCalls(run.calls, 25)})
			return false
		}
		return true
	}
	skipKinds := map[string]bool{"RClose": true}
	for p := 0; p < n; p++ {
		k := base.calls[p].Kind
		if skipKinds[k] {
			continue
		}
		variants := []c13Fault{{Pos: p, Kind: k}}
		if k == "Update" {
			variants = append(variants, c13Fault{Pos: p, CtxErr: true, Kind: k})
		}
		if k == "Close" || k == "TombstoneFile" {
			variants = append(variants, c13Fault{Pos: p, Post: true, Kind: k})
		}
		for _, f := range variants {
			run, _, _, do := exec([]c13Fault{f}, nil)
			do()
			rc.Res.Count("single."+k, 1)
			if !tally(run, []c13Fault{f}) {
				return
			}
			// cleanup calls provoked by this failure
			for q := p + 1; q < len(run.calls) && q <= p+6; q++ {
				if ck := run.calls[q].Kind; ck == "Abort" || ck == "TombstoneFile" {
					fs := []c13Fault{f, {Pos: q, Kind: ck, Post: q%2 == 0}}
					run2, _, _, do2 := exec(fs, nil)
					do2()
					rc.Res.Count("pair.cleanup."+ck, 1)
					if !tally(run2, fs) {
						return
					}
				}
			}
		}
	}
	pr := r.Split("pairs")
	np := 25
	if rc.Tier == "thorough" {
		np = 40
	}
	for k := 0; k < np; k++ {
		a, b := pr.Intn(n), pr.Intn(n)
		fs := []c13Fault{{Pos: a, Post: pr.Bool()}, {Pos: b, Post: pr.Bool()}}
		if k%5 == 0 {
			fs = []c13Fault{{Pos: a, Cancel: true, Kind: "cancel-ctx"}}
		}
		run, _, _, do := exec(fs, nil)
		do()
		rc.Res.Count("pair.random_or_cancel", 1)
		if !tally(run, fs) {
			return
		}
	}
	// concurrent Merge: a second call while the first is held at a gate
	// (the first call is held at its first candidate listing step, source open, output creation,
	// output write or commit: "in progress" starts when Merge is called, not when it writes)
	gateKind = core.Pick(r, []string{"IterYield", "IterYield", "OpenFile", "CreateFile", "Write", "Update"})
	rc.Res.Count("concurrent_merge_first_held_at."+gateKind, 1)
	gate := stores.NewGate(false)
	run, e, _, do := exec(nil, gate)
	firstDone := make(chan error, 1)
	go func() { _, err := do(); firstDone <- err }()
	for t := 0; t < 2000 && gate.Waiting.Load() == 0; t++ {
		time.Sleep(200 * time.Microsecond)
	}
	if gate.Waiting.Load() > 0 {
		ctx, cancel := context.WithTimeout(context.Background(), 5*time.Second)
		_, err2 := e.Merge(ctx)
		cancel()
		rc.Res.Count("concurrent_merge_checks", 1)
		if !errors.Is(err2, bs.ErrMergeInProgress) {
			gate.Open()
			<-firstDone
			rc.Violate(i, "concurrent-merge-not-refused", "", fmt.Sprintf("a second Merge issued while the first was in progress returned %v instead of ErrMergeInProgress", err2), desc)
			return
		}
		// a refused caller must not disturb the guard: further callers are refused as well
		for k := 3; k <= 4; k++ {
			ctx3, cancel3 := context.WithTimeout(context.Background(), 5*time.Second)
			_, err3 := e.Merge(ctx3)
			cancel3()
			rc.Res.Count("concurrent_merge_checks", 1)
			if !errors.Is(err3, bs.ErrMergeInProgress) {
				gate.Open()
				<-firstDone
				rc.Violate(i, "concurrent-merge-not-refused", "", fmt.Sprintf("Merge call #%d issued while the first was still in progress (and after another call had been refused) returned %v instead of ErrMergeInProgress", k, err3), desc)
				return
			}
		}
	}
	gate.Open()
	if err := <-firstDone; err != nil || run.viol != "" {
		rc.Violate(i, "merge-after-gate-wrong", run.kind, fmt.Sprintf("%s err=%v", run.viol, err), desc)
		return
	}
	if i < 3 {
		rc.Res.Sample(map[string]any{"history": desc, "fault_free_store_calls": kinds, "positions": n})
	}
}

// copyDir copies a flat directory of store files into a fresh scratch directory.
func copyDir(src string) (string, error) {
	dst, err := os.MkdirTemp(filepath.Dir(src), "c13copy-")
	if err != nil {
		return "", err
	}
	ents, err := os.ReadDir(src)
	if err != nil {
		return "", err
	}
	for _, e := range ents {
		if e.IsDir() {
			continue
		}
		b, err := os.ReadFile(filepath.Join(src, e.Name()))
		if err != nil {
			return "", err
		}
		if err := os.WriteFile(filepath.Join(dst, e.Name()), b, 0o600); err != nil {
			return "", err
		}
	}
	return dst, nil
}
