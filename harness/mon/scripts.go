package mon

import (
	"context"
	"errors"
	"fmt"
	"log/slog"
	"runtime"
	"sort"
	"strings"
	"sync"
	"sync/atomic"
	"time"
	"unicode/utf8"

	bs "github.com/danthegoodman1/bloomsearch"

	"verifharness/core"
	"verifharness/gen"
	"verifharness/stores"
	"verifharness/world"
)

// ---------- bounded-progress helper (stuck detector) ----------

func allStacks() string {
	buf := make([]byte, 1<<20)
	for {
		n := runtime.Stack(buf, true)
		if n < len(buf) {
			return string(buf[:n])
		}
		buf = make([]byte, 2*len(buf))
	}
}

// engineStacks keeps only goroutines with a bloomsearch frame matching any of
// the needles, normalised (addresses and goroutine ids stripped).
func engineStacks(dump string, needles ...string) []string {
	var out []string
	for _, g := range strings.Split(dump, "\n\n") {
		if !strings.Contains(g, "danthegoodman1/bloomsearch.") {
			continue
		}
		hit := len(needles) == 0
		for _, n := range needles {
			if strings.Contains(g, n) {
				hit = true
			}
		}
		if !hit {
			continue
		}
		var sb strings.Builder
		for _, line := range strings.Split(g, "\n") {
			if strings.HasPrefix(line, "goroutine ") {
				if i := strings.Index(line, "["); i >= 0 {
					line = line[i:]
				}
				if j := strings.Index(line, ","); j >= 0 { // drop "N minutes"
					line = line[:j] + "]"
				}
			}
			if i := strings.Index(line, "(0x"); i >= 0 {
				line = line[:i]
			}
			if i := strings.Index(line, " +0x"); i >= 0 {
				line = line[:i]
			}
			sb.WriteString(line)
			sb.WriteByte('\n')
		}
		out = append(out, sb.String())
	}
	return out
}

// awaitProgress waits for done. It returns "" when done fired; "stuck:<dump>"
// when, 20 s after the harness removed every obstacle, two goroutine dumps 3 s
// apart show identical blocked engine stacks; "inconclusive" when the
// generous watchdog fires while stacks still change.
func awaitProgress(done <-chan struct{}) string {
	select {
	case <-done:
		return ""
	case <-time.After(20 * time.Second):
	}
	// A goroutine that is running, runnable or in a syscall is making (or waiting to make)
	// progress: on a loaded machine that can look the same in two dumps. Only engine goroutines
	// that are all parked (channel, select, lock, wait) with unchanged stacks in three dumps
	// 3 s apart count as stuck.
	allParked := func(gs []string) bool {
		for _, g := range gs {
			if strings.HasPrefix(g, "[running") || strings.HasPrefix(g, "[runnable") || strings.HasPrefix(g, "[syscall") {
				return false
			}
		}
		return len(gs) > 0
	}
	deadline := time.Now().Add(core.Patience)
	for time.Now().Before(deadline) {
		var dumps [3]string
		same := true
		for k := 0; k < 3 && same; k++ {
			if k > 0 {
				select {
				case <-done:
					return ""
				case <-time.After(3 * time.Second):
				}
			}
			dumps[k] = allStacks()
			gs := engineStacks(dumps[k])
			if !allParked(gs) {
				same = false
			} else if k > 0 && strings.Join(gs, "\x00") != strings.Join(engineStacks(dumps[k-1]), "\x00") {
				same = false
			}
		}
		if same {
			select {
			case <-done:
				return ""
			default:
			}
			return "stuck:" + core.Trunc(dumps[2], 12000)
		}
		select {
		case <-done:
			return ""
		case <-time.After(2 * time.Second):
		}
	}
	return "inconclusive"
}

// queryGoroutines counts live goroutines started by Query.
func queryGoroutines() (int, string) {
	d := allStacks()
	gs := engineStacks(d, "(*BloomSearchEngine).Query", "query_exec.go", "query_results.go")
	// the consumer itself (calling Next/Close from the harness) has harness frames
	n := 0
	var keep []string
	for _, g := range gs {
		if strings.Contains(g, "verifharness/") {
			continue
		}
		n++
		keep = append(keep, g)
	}
	return n, strings.Join(keep, "\n")
}

// ---------- query scripts ----------

type scriptStep struct {
	Op string `json:"op"` // next, cancel, close, closeAsync, pause, drain
	N  int    `json:"n,omitempty"`
}

type faultSpec struct {
	Kind string `json:"kind"` // OpenFile, Read, Seek, IterYield, Iter
	N    int    `json:"n"`    // the n-th call of that kind within the query
	// File, when set, restricts the count to calls on that file: the n-th call of the kind on it.
	File string `json:"file,omitempty"`
}

type scriptCase struct {
	Ctx      string       `json:"query_context,omitempty"`
	IterGate int          `json:"suspend_iterator_at_yield,omitempty"` // 1-based; 0 = no
	Steps    []scriptStep `json:"steps"`
	Faults   []faultSpec  `json:"faults,omitempty"`
	Delays   bool         `json:"delays"`
	CtxReads bool         `json:"reads_fail_once_context_done,omitempty"`
	Variant  string       `json:"engine"` // started, never-started, stopped
	Query    string       `json:"query"`
	Conc     int          `json:"max_query_concurrency"`
}

func genScript(r *core.Rand) []scriptStep {
	var st []scriptStep
	shape := r.Intn(13)
	switch shape {
	case 10: // some rows, cancel, and only after the pipeline had time to wind down the next Next
		st = append(st, scriptStep{Op: "next", N: r.Range(1, 40)}, scriptStep{Op: "cancel"}, scriptStep{Op: "pause", N: r.Range(2, 25)}, scriptStep{Op: "drain"})
	case 11: // cancel before the first Next, first Next only after the wind-down
		st = append(st, scriptStep{Op: "cancel"}, scriptStep{Op: "pause", N: r.Range(2, 25)}, scriptStep{Op: "drain"})
	case 12: // the pipeline finishes (or fills up) unobserved, then cancel, pause, Next
		st = append(st, scriptStep{Op: "pause", N: r.Range(5, 40)}, scriptStep{Op: "cancel"}, scriptStep{Op: "pause", N: r.Range(1, 10)}, scriptStep{Op: "drain"})
	case 0: // run to completion
		st = append(st, scriptStep{Op: "drain"})
	case 1: // cancel before first Next
		st = append(st, scriptStep{Op: "cancel"}, scriptStep{Op: "drain"})
	case 2: // close before first Next
		st = append(st, scriptStep{Op: "close"}, scriptStep{Op: "drain"})
	case 3: // some rows then cancel
		st = append(st, scriptStep{Op: "next", N: r.Range(1, 150)}, scriptStep{Op: "cancel"}, scriptStep{Op: "drain"})
	case 4: // some rows then close
		st = append(st, scriptStep{Op: "next", N: r.Range(1, 150)}, scriptStep{Op: "close"}, scriptStep{Op: "drain"})
	case 5: // concurrent close
		st = append(st, scriptStep{Op: "next", N: r.Range(0, 80)}, scriptStep{Op: "closeAsync"}, scriptStep{Op: "drain"})
	case 6: // slow consumer then cancel
		st = append(st, scriptStep{Op: "next", N: r.Range(1, 10)}, scriptStep{Op: "pause", N: r.Range(5, 40)}, scriptStep{Op: "cancel"}, scriptStep{Op: "drain"})
	case 7: // cancel then close then drain
		st = append(st, scriptStep{Op: "next", N: r.Range(0, 30)}, scriptStep{Op: "cancel"}, scriptStep{Op: "close"}, scriptStep{Op: "drain"})
	case 8: // completion then close twice then cancel
		st = append(st, scriptStep{Op: "drain"}, scriptStep{Op: "close"}, scriptStep{Op: "close"}, scriptStep{Op: "cancel"}, scriptStep{Op: "drain"})
	default: // stalled consumer, then close
		st = append(st, scriptStep{Op: "pause", N: r.Range(10, 60)}, scriptStep{Op: "close"}, scriptStep{Op: "close"}, scriptStep{Op: "drain"})
	}
	return st
}

type scriptOutcome struct {
	firstFalse      bool
	rows            []map[string]any
	errAfter        error
	canceledBefore  bool // cancel() was called before the Next that returned the first false
	closedBefore    bool // a synchronous Close returned before that Next
	closeAsyncUsed  bool
	closeErrs       []error
	stickyViolation string
	errChanged      string
	stats           bs.QueryStats
	history         []string
}

// scriptWorld is a prebuilt data set shared by a case's scripts.
type scriptWorld struct {
	bigRegion bool
	bigPtr    string   // pointer of the multi-chunk file
	bigKeys   []string // field paths present in some but not all of its blocks
	w         *world.World
	d         *world.Descriptor
	inv       []*world.FileInv
	log       *stores.Log
	plan      *scriptPlan
	engs      map[string]*bs.BloomSearchEngine
	conc      int
}

// scriptPlan injects faults relative to a query's start and random delays.
type scriptPlan struct {
	perFile   map[string]int
	iterGate  *stores.Gate // the iterGateN-th iterator yield of the query parks here (honours ctx)
	iterGateN int
	mu        sync.Mutex
	active    bool
	base      map[string]int // per-kind call count at query start
	faults    []faultSpec
	delays    bool
	rnd       *core.Rand
	injected  []string
}

func (p *scriptPlan) decide(c *stores.Call) stores.Action {
	p.mu.Lock()
	defer p.mu.Unlock()
	if !p.active {
		return stores.Action{}
	}
	var act stores.Action
	rel := c.N - p.base[c.Kind]
	if p.iterGate != nil && c.Kind == "IterYield" && rel == p.iterGateN {
		act.Gate = p.iterGate
	}
	for _, f := range p.faults {
		if f.Kind != c.Kind {
			continue
		}
		if f.File != "" {
			if c.File != f.File {
				continue
			}
			if p.perFile == nil {
				p.perFile = map[string]int{}
			}
			key := f.Kind + "|" + f.File
			n := p.perFile[key]
			p.perFile[key] = n + 1
			if n == f.N {
				act.Fail = true
				p.injected = append(p.injected, fmt.Sprintf("%s#%d", c.Kind, c.Seq))
			}
			continue
		}
		if f.N == rel {
			act.Fail = true
			p.injected = append(p.injected, fmt.Sprintf("%s#%d", c.Kind, c.Seq))
		}
	}
	if p.delays {
		switch p.rnd.Intn(6) {
		case 0:
			act.Delay = time.Duration(p.rnd.Range(50, 1500)) * time.Microsecond
		case 1:
			act.Delay = -1 // Gosched
		}
		if c.Kind == "RClose" && p.rnd.Intn(3) == 0 {
			// closing a handle can be slow (a broken remote stream): whoever closes it must
			// have finished before the cursor reports the query finished
			act.Delay = time.Duration(p.rnd.Range(1000, 6000)) * time.Microsecond
		}
	}
	return act
}

func buildScriptWorld(rc *RunCtx, i int) (*scriptWorld, error) {
	r := rc.CaseRand(i).Split("scriptworld")
	caseID := fmt.Sprintf("%s%d_%d", strings.ToLower(rc.ID), rc.Seed, i)
	v := gen.NewVocab(r.Split("vocab"))
	tok := gen.Tokenizers[0]
	w := world.New(caseID, world.StoreMem, v, tok)
	log := stores.NewLog(&stores.Clock{})
	w.Instrument(log)
	plan := &scriptPlan{rnd: r.Split("plan")}
	log.Plan = &stores.Plan{Decide: plan.decide}
	spec := gen.PickEngineSpec(r.Split("spec"), v, tok)
	spec.RGRows = core.Pick(r, []int{2, 5, 20, 100})
	spec.RGBytes = 10 << 20
	spec.BufRows = core.Pick(r, []int{10, 40, 200})
	spec.BufBytes = 1 << 20
	spec.QueryConc = core.Pick(r, []int{1, 1, 2, 3, 8})
	spec.Compression = core.Pick(r, []string{"none", "snappy", "zstd"})
	spec.ZstdLevel = 1
	bigBlocks := i%2 == 1
	if bigBlocks {
		// few large blocks: a block delivers several full batches before its scan ends, so a
		// consumer can hold rows of a block that is still being scanned when it closes
		spec.Part = gen.PartFunc{Name: "none"}
		spec.Partition = "none"
		spec.RGRows, spec.BufRows = 1<<30, core.Pick(r, []int{150, 300, 600})
	}
	if i%3 == 0 {
		// a configured Logger whose handler takes its time (a real sink does): whatever the
		// engine reports through it on a failure path sits between two steps of that path
		w.Logger = slog.New(&slowLogHandler{rnd: r.Split("slowlog")})
		rc.Res.Count("datasets_with_slow_logger", 1)
	}
	if _, err := w.AddEngine(spec); err != nil {
		return nil, err
	}
	sw := &scriptWorld{w: w, log: log, plan: plan, engs: map[string]*bs.BloomSearchEngine{}, conc: spec.QueryConc}
	sw.d = &world.Descriptor{Case: caseID, Kind: world.StoreMem, Engines: w.Specs}
	total := r.Range(60, 700)
	if bigBlocks {
		total = r.Range(600, 1300)
	}
	rr := r.Split("rows")
	for total > 0 {
		// one flush per round; with big blocks a round carries several batches so that the block
		// written by the flush holds hundreds of rows
		var batches [][]*world.RowRec
		round := r.Range(5, 60)
		if bigBlocks {
			round = spec.BufRows - 1
		}
		for round > 0 && total > 0 {
			n := r.Range(5, 60)
			if n > round {
				n = round
			}
			if n > total {
				n = total
			}
			var recs []*world.RowRec
			for k := 0; k < n; k++ {
				recs = append(recs, w.NewRow(rr, 0))
			}
			batches = append(batches, recs)
			round -= n
			total -= n
		}
		if err := w.IngestSync(0, batches); err != nil {
			w.Close()
			return nil, err
		}
	}
	if i%6 == 5 && rc.ID == "C23" {
		// (C23 only: megabytes of buffers are prohibitively slow under the race detector on this
		// machine - one 20 MiB buffer write costs tens of seconds - and the reversed-sections
		// file below gives the race-built checks the same multi-read filter pass for nothing)
		// one externally written file whose block filter region spans several read chunks
		// (about 1 MiB per section): a failed read can then hit the second or a later chunk,
		// after some of the file's blocks have already been evaluated
		xd, err := w.AddExtFile(r.Split("bigregion"), 0, r.Range(12, 25), 160000)
		if err != nil {
			w.Close()
			return nil, err
		}
		sw.d.Ext = append(sw.d.Ext, xd)
		sw.bigRegion = true
	}
	if i%6 == 2 {
		// a cheap way to the same situation (affordable under the race detector, so it runs in
		// every tier): an externally written file whose filter sections are laid out in the
		// reverse of the row-data order, so that no forward read covers two of them and the
		// filter pass is one read per block
		w.ExtReverseSections = true
		xd, err := w.AddExtFile(r.Split("revsections"), 0, r.Range(12, 40), 0)
		w.ExtReverseSections = false
		if err != nil {
			w.Close()
			return nil, err
		}
		sw.d.Ext = append(sw.d.Ext, xd)
		sw.bigRegion = true
		rc.Res.Count("datasets_with_reversed_filter_sections", 1)
	}
	inv, err := w.Inventory()
	if err != nil {
		w.Close()
		return nil, err
	}
	sw.inv = inv
	if sw.bigRegion && len(sw.d.Ext) > 0 {
		sw.bigPtr = sw.d.Ext[len(sw.d.Ext)-1].Ptr
		for _, f := range inv {
			if f.Ptr != sw.bigPtr {
				continue
			}
			count := map[string]int{}
			for _, b := range f.Blocks {
				seen := map[string]bool{}
				for _, vid := range b.VIDs {
					for path := range w.Rows[vid].Doc.Fields {
						if !seen[path] && utf8.ValidString(path) && path != "" {
							seen[path] = true
							count[path]++
						}
					}
				}
			}
			for path, n := range count {
				if n < len(f.Blocks) {
					sw.bigKeys = append(sw.bigKeys, path)
				}
			}
			sort.Strings(sw.bigKeys)
		}
	}
	for _, f := range inv {
		sw.d.Files++
		sw.d.Blocks += len(f.Blocks)
		for _, b := range f.Blocks {
			sw.d.Rows += len(b.VIDs)
		}
	}
	sw.engs["started"] = w.Eng[0]
	vcfg := spec.Config()
	vcfg.Logger = w.Logger
	ns, err := bs.NewBloomSearchEngine(vcfg, w.IMeta, w.IData)
	if err != nil {
		w.Close()
		return nil, err
	}
	sw.engs["never-started"] = ns
	st, _ := bs.NewBloomSearchEngine(vcfg, w.IMeta, w.IData)
	st.Start()
	sctx, cancel := context.WithTimeout(context.Background(), core.Patience)
	st.Stop(sctx)
	cancel()
	sw.engs["stopped"] = st
	return sw, nil
}

func init() {
	runScriptCases = runScripts
	spec20 := core.Spec{ID: "C20", Level: "exploration",
		Rule:        "case = prebuilt multi-file/multi-block data set behind instrumented stores x consumer scripts (Next xk, cancel, Close, concurrent Close, pauses, drain) x fault plans (n-th OpenFile/Read/Seek/iterator yield of the query fails) x PRNG delays at store calls, on started, never-started and stopped engines, under -race; the cursor's terminal state is checked against the script's happens-before facts; non-trivial = script that terminates the query early or reaches an injected failure; distinct = distinct (data set, script, faults, query, engine state)",
		Assumptions: []string{"after the consumer's own Close, Err may be nil/joined errors or the context error (documented Close semantics)", "cancel concurrent with the final Next accepts either classification", "bounded progress: a Next that has not returned 20 s after cancel/Close with identical blocked engine stacks in two dumps 3 s apart is a violation; a 2 min watchdog with changing stacks is inconclusive"},
		Floors:      map[string]int64{"scripts": 150, "scripts_terminated_early": 40, "scripts_with_reached_fault": 15}}
	Register(&Check{Spec: spec20, Cases: func(t string) int { return nQueries(t, 48, 1200) }, Run: func(rc *RunCtx, i int) { runScripts(rc, i, "C20") }, RaceMatters: true})
	spec21 := core.Spec{ID: "C21", Level: "exploration",
		Rule:        "same scripts as C20; at the instant the final Next returned false / Close returned the instrumented DataStore's handle table and the MetaStore iterator gauge are inspected (every handle opened by the query closed exactly once, no operation after close, no two operations overlapping on one handle; a plain shadow field per handle lets the race detector see concurrent use), then the process's goroutines and the engine's query-slot gauge are polled to a stable state; non-trivial = script whose query opened >= 1 handle; distinct as C20",
		Assumptions: []string{"goroutine exit is polled for up to 5 s because a goroutine that closed the cursor's done channel may still be executing its return"},
		Floors:      map[string]int64{"scripts": 150, "handles_opened": 300}}
	Register(&Check{Spec: spec21, Cases: func(t string) int { return nQueries(t, 48, 1200) }, Run: func(rc *RunCtx, i int) { runScripts(rc, i, "C21") }, RaceMatters: true})
}

func runScripts(rc *RunCtx, i int, forProp string) {
	sw, err := buildScriptWorld(rc, i)
	if err != nil {
		rc.Violate(i, "scenario-failed", "", err.Error(), nil)
		return
	}
	defer sw.w.Close()
	r := rc.CaseRand(i).Split("scripts", forProp)
	pm := installPoints(r.Split("points"), i%2 == 0, 800)
	defer pm.uninstall(rc.Res)
	facts := sw.w.Facts()
	n := 8
	if rc.Tier == "thorough" {
		n = 16
	}
	if forProp == "C23" {
		n = 8
	}
	for k := 0; k < n; k++ {
		steps := genScript(r)
		if forProp == "C23" && k%2 == 0 {
			// stats of terminated queries: take some rows, then stop while blocks are mid-scan
			steps = []scriptStep{{Op: "next", N: r.Range(1, 40)}, {Op: core.Pick(r, []string{"close", "cancel"})}, {Op: "drain"}}
		}
		sc := &scriptCase{Steps: steps, Delays: r.Chance(0.6), Variant: core.Pick(r, []string{"started", "started", "never-started", "stopped"}), Conc: sw.conc}
		// a quarter of the scripts run against handles that behave like object-store streams: once
		// the query's context is done (cancel, Close) their reads fail with its error, so workers
		// meet read failures exactly while the query is being torn down
		sc.CtxReads = r.Intn(4) == 0
		if r.Chance(0.4) {
			nf := r.Range(1, 3)
			for f := 0; f < nf; f++ {
				kind := core.Pick(r, []string{"OpenFile", "Read", "Read", "Seek", "IterYield"})
				sc.Faults = append(sc.Faults, faultSpec{Kind: kind, N: r.Range(0, 12)})
			}
		}
		if r.Chance(0.12) {
			// the MetaStore iteration itself fails - at its start, at its first yield or after a
			// few files - in a query that is otherwise left to run to the end: the failure is the
			// last thing the pipeline learns, and Err must still carry it
			sc.Faults = []faultSpec{{Kind: core.Pick(r, []string{"Iter", "IterYield", "IterYield"}), N: core.Pick(r, []int{0, 0, 0, 1, 3})}}
			if sc.Faults[0].Kind == "Iter" {
				sc.Faults[0].N = 0
			}
			sc.Steps = []scriptStep{{Op: "drain"}}
			if r.Bool() {
				sc.Steps = []scriptStep{{Op: "pause", N: r.Range(1, 8)}, {Op: "drain"}}
			}
			rc.Res.Count("scripts_iterator_failure_run_to_end", 1)
		}
		bigFault := sw.bigRegion && len(sc.Faults) == 0 && r.Chance(0.6)
		if bigFault {
			// a read failure in the middle of the multi-chunk filter pass of the big file (its
			// second, third, ... read), query left to run to the end
			sc.Faults = []faultSpec{{Kind: "Read", N: r.Range(1, 3), File: sw.bigPtr}}
			sc.Steps = []scriptStep{{Op: "drain"}}
			rc.Res.Count("scripts_fault_in_multichunk_filter_pass", 1)
		} else if r.Chance(0.15) {
			// the MetaStore iterator is suspended (ctx-honouring wait) when the consumer cancels/closes
			sc.IterGate = r.Range(1, 3)
			sc.Faults = nil
			switch r.Intn(3) {
			case 0:
				sc.Steps = []scriptStep{{Op: "cancel"}, {Op: "drain"}}
			case 1:
				sc.Steps = []scriptStep{{Op: "pause", N: r.Range(2, 20)}, {Op: "close"}, {Op: "drain"}}
			default:
				sc.Steps = []scriptStep{{Op: "closeAsync"}, {Op: "drain"}}
			}
		}
		var q *bs.Query
		switch r.Intn(5) {
		case 0:
			q = &bs.Query{}
		case 1, 2:
			q = bs.NewQuery().Field("_vid").Build()
		case 3:
			q = facts.Query(r)
			if q.Regex != nil { // keep scripts about the cursor, not regex validity
				q.Regex = nil
			}
		default:
			e := facts.BloomTree(r, 2, false)
			q = &bs.Query{Bloom: &bs.BloomQuery{Expression: &e}}
		}
		if bigFault && len(sw.bigKeys) > 0 && r.Chance(0.7) {
			// a condition that only some blocks of the big file can satisfy: the others are pruned
			// by their filters in whichever chunk holds them
			q = bs.NewQuery().Field(core.Pick(r, sw.bigKeys)).Build()
		}
		sc.Query = queryJSON(q)
		runOneScript(rc, i, k, sw, sc, q, forProp, pm)
	}
}

func runOneScript(rc *RunCtx, i, k int, sw *scriptWorld, sc *scriptCase, q *bs.Query, forProp string, pm *pointMon) {
	e := sw.engs[sc.Variant]
	wit := func(extra any) map[string]any {
		return map[string]any{"script": sc, "data": sw.d, "detail": extra}
	}
	rc.Res.Eval(1)
	rc.Res.Count("scripts", 1)
	rc.Res.Count("engine."+sc.Variant, 1)

	// arm the plan relative to this query
	l0 := len(sw.log.Snapshot())
	// (the log is consulted before plan.mu is taken: the log calls decide under its own mutex)
	base := map[string]int{}
	for _, kind := range []string{"OpenFile", "Read", "Seek", "IterYield", "Iter"} {
		base[kind] = sw.log.Count(kind)
	}
	sw.plan.mu.Lock()
	sw.plan.base = base
	sw.w.IData.ReadsHonorCtx.Store(sc.CtxReads)
	if sc.CtxReads {
		rc.Res.Count("scripts_reads_fail_once_context_done", 1)
	}
	sw.plan.faults = sc.Faults
	sw.plan.delays = sc.Delays
	sw.plan.injected = nil
	sw.plan.perFile = nil
	sw.plan.iterGate = nil
	if sc.IterGate > 0 {
		sw.plan.iterGate = stores.NewGate(true)
		sw.plan.iterGateN = sc.IterGate - 1
		rc.Res.Count("scripts_iterator_suspended", 1)
	}
	sw.plan.active = true
	sw.plan.mu.Unlock()
	defer func() {
		sw.plan.mu.Lock()
		sw.plan.active = false
		if sw.plan.iterGate != nil {
			sw.plan.iterGate.Open()
		}
		sw.plan.mu.Unlock()
	}()
	handlesBefore := map[int]bool{}
	for _, h := range sw.w.IData.HandleSnapshot() {
		handlesBefore[h.ID] = true
	}
	anomBefore := len(sw.log.AnomalyList())

	// The Query context is a plain cancellable one, or one that also carries a far-away deadline
	// (cancelled by its own cancel func or through its parent): cancelling it early is a
	// cancellation like any other, whatever the deadline says.
	var ctx context.Context
	var cancel context.CancelFunc
	switch (i + k) % 3 {
	case 0:
		ctx, cancel = context.WithCancel(context.Background())
	case 1:
		c, cf := context.WithTimeout(context.Background(), time.Hour)
		ctx, cancel = c, cf
		sc.Ctx = "timeout(1h), cancelled by its own cancel func"
	default:
		parent, pcancel := context.WithCancel(context.Background())
		c, cf := context.WithDeadline(parent, time.Now().Add(2*time.Hour))
		ctx, cancel = c, func() { pcancel(); _ = cf }
		defer cf()
		sc.Ctx = "deadline(2h) under a parent that gets cancelled"
	}
	defer cancel()
	rs, err := e.Query(ctx, q)
	if err != nil {
		rc.Violate(i, "query-refused", "", err.Error(), wit(nil))
		return
	}
	out := &scriptOutcome{}
	done := make(chan struct{})
	var asyncWG sync.WaitGroup
	// A concurrent Close is held right after it cancelled the query until the consumer's Next has
	// returned false and the consumer has read Err (or 40 ms): the terminal state the consumer
	// saw then must be the one that stays.
	var consumerSawFalse atomic.Bool
	holdClose := false
	for _, st := range sc.Steps {
		if st.Op == "closeAsync" {
			holdClose = true
		}
	}
	if holdClose && k%2 == 0 {
		pm.on("results.close.canceled", func() {
			for t := 0; t < 160 && !consumerSawFalse.Load(); t++ {
				time.Sleep(250 * time.Microsecond)
			}
		})
		defer pm.on("results.close.canceled", nil)
		rc.Res.Count("scripts_close_held_behind_next", 1)
	}
	go func() {
		defer close(done)
		canceled, closed := false, false
		noteFalse := func() {
			if !out.firstFalse {
				out.firstFalse = true
				out.canceledBefore = canceled
				out.closedBefore = closed
				out.errAfter = rs.Err()
				consumerSawFalse.Store(true)
				// sticky: ten more Next calls stay false, Row stays nil
				for t := 0; t < 10; t++ {
					if rs.Next() {
						out.stickyViolation = "Next returned true after having returned false"
					}
					if rs.Row() != nil {
						out.stickyViolation = "Row is non-nil after Next returned false"
					}
				}
				if e2 := rs.Err(); !sameErr(e2, out.errAfter) {
					out.errChanged = fmt.Sprintf("Err changed after further Next calls: %v -> %v", out.errAfter, e2)
				}
			}
		}
		for _, st := range sc.Steps {
			switch st.Op {
			case "next":
				for t := 0; t < st.N; t++ {
					if rs.Next() {
						if !out.firstFalse {
							out.rows = append(out.rows, rs.Row())
						}
					} else {
						noteFalse()
						break
					}
				}
			case "drain":
				for rs.Next() {
					if !out.firstFalse {
						out.rows = append(out.rows, rs.Row())
					}
				}
				noteFalse()
			case "cancel":
				cancel()
				canceled = true
				out.history = append(out.history, "cancel")
			case "close":
				before := rs.Err()
				decided := out.firstFalse
				cerr := rs.Close()
				out.closeErrs = append(out.closeErrs, cerr)
				closed = true
				if decided {
					if after := rs.Err(); !sameErr(before, after) {
						out.errChanged = fmt.Sprintf("Close changed an already decided terminal state: %v -> %v", before, after)
					}
				}
				out.history = append(out.history, "close")
			case "closeAsync":
				out.closeAsyncUsed = true
				asyncWG.Add(1)
				go func() {
					defer asyncWG.Done()
					if cerr := rs.Close(); cerr != nil {
						out.closeErrs = append(out.closeErrs, cerr)
					}
				}()
			case "pause":
				time.Sleep(time.Duration(st.N) * time.Millisecond)
			}
		}
		asyncWG.Wait()
		if out.firstFalse && out.errChanged == "" {
			if e3 := rs.Err(); !sameErr(e3, out.errAfter) {
				out.errChanged = fmt.Sprintf("the terminal state the consumer read when Next returned false (%v) was replaced once a concurrent Close returned (%v)", out.errAfter, e3)
			}
		}
		out.stats = rs.Stats()
	}()
	switch verdict := awaitProgress(done); {
	case verdict == "":
	case strings.HasPrefix(verdict, "stuck:"):
		rc.Violate(i, "cursor-stuck", "", "the consumer script did not finish: Next/Close blocked with identical engine stacks in two dumps", wit(strings.TrimPrefix(verdict, "stuck:")))
		return
	default:
		rc.Res.Inconc(fmt.Sprintf("script %d.%d hit the watchdog with changing stacks", i, k))
		return
	}
	// ---- observations at the instant the script ended
	handles := sw.w.IData.HandleSnapshot()
	activeIters := sw.w.IMeta.ActiveIters.Load()
	anoms := sw.log.AnomalyList()[anomBefore:]
	calls := sw.log.Snapshot()[l0:]
	sw.plan.mu.Lock()
	injected := append([]string(nil), sw.plan.injected...)
	sw.plan.mu.Unlock()

	terminatedEarly := out.canceledBefore || out.closedBefore || out.closeAsyncUsed
	if terminatedEarly {
		rc.Res.Count("scripts_terminated_early", 1)
	}
	if len(injected) > 0 {
		rc.Res.Count("scripts_with_reached_fault", 1)
	}
	if terminatedEarly || len(injected) > 0 {
		rc.Res.Nontrivial(sw.d.Case, fmt.Sprintf("%+v", sc))
	}
	sig := scheduleSig(calls)
	rc.Res.Count("store_calls", int64(len(calls)))
	_ = sig

	if forProp == "C20" {
		if !out.firstFalse {
			rc.Violate(i, "next-never-false", "", "the script drained the cursor but Next never returned false", wit(nil))
			return
		}
		if out.stickyViolation != "" {
			rc.Violate(i, "terminal-state-not-sticky", "", out.stickyViolation, wit(nil))
			return
		}
		if out.errChanged != "" {
			rc.Violate(i, "terminal-state-changed", "", out.errChanged, wit(nil))
			return
		}
		for _, ce := range out.closeErrs {
			if ce != nil {
				rc.Violate(i, "close-returned-error", "", "Close returned "+ce.Error(), wit(nil))
				return
			}
		}
		err := out.errAfter
		isCtx := err != nil && errors.Is(err, context.Canceled)
		switch {
		case out.canceledBefore && !out.closedBefore && !out.closeAsyncUsed:
			rc.Res.Count("verdict.canceled", 1)
			if !isCtx {
				rc.Violate(i, "canceled-query-not-reported", "", fmt.Sprintf("the context was canceled before the final Next, no Close was called, but Err = %v", err), wit(out.history))
				return
			}
		case out.closedBefore || out.closeAsyncUsed:
			rc.Res.Count("verdict.closed", 1)
			// nil, joined recorded errors, or the context error are all documented outcomes
			if err != nil && !isCtx && !errors.Is(err, stores.ErrInjected) {
				rc.Violate(i, "unexpected-error-after-close", "", fmt.Sprintf("Err after Close = %v, which is neither a recorded store failure nor the context error", err), wit(nil))
				return
			}
		default:
			// ran to completion
			rc.Res.Count("verdict.completed", 1)
			if len(injected) == 0 {
				if err != nil {
					rc.Violate(i, "error-without-failure", "", "nothing failed and the query was not canceled, but Err = "+err.Error(), wit(nil))
					return
				}
				// completeness of a clean run
				want := 0
				for _, rec := range sw.w.StoredRecs() {
					if rec.View.Match(q) {
						want += rec.Count
					}
				}
				if !hasPrefilter(q) && len(out.rows) != want {
					rc.Violate(i, "clean-run-incomplete", "", fmt.Sprintf("clean completion on a %s engine returned %d rows, %d match", sc.Variant, len(out.rows), want), wit(nil))
					return
				}
			} else {
				if err == nil {
					rc.Violate(i, "failure-not-reported", "", fmt.Sprintf("store failures %v were injected and reached, the query ran to completion, but Err is nil", injected), wit(nil))
					return
				}
				if !errors.Is(err, stores.ErrInjected) {
					rc.Violate(i, "failure-not-wrapped", "", "Err does not wrap the store failure: "+err.Error(), wit(injected))
					return
				}
				msg := err.Error()
				for _, tag := range injected {
					if !strings.Contains(msg, tag) {
						rc.Violate(i, "failure-dropped", "", fmt.Sprintf("injected failure %s was reached but is not reported by Err (%s)", tag, core.Trunc(msg, 300)), wit(injected))
						return
					}
				}
			}
		}
	}

	if forProp == "C21" {
		opened := 0
		for _, h := range handles {
			if handlesBefore[h.ID] {
				continue
			}
			opened++
			if h.Closes != 1 {
				rc.Violate(i, "handle-not-closed-once", "", fmt.Sprintf("handle %d on %s was closed %d times when the cursor finished", h.ID, h.File, h.Closes), wit(h))
				return
			}
			if h.CloseReturned != 1 {
				rc.Violate(i, "handle-close-still-running", "", fmt.Sprintf("handle %d on %s: its Close call had been started but had not returned when the cursor finished (the handle is still open and a goroutine of the query is still at work)", h.ID, h.File), wit(h))
				return
			}
			if h.OpsAfter > 0 || h.Overlaps > 0 {
				rc.Violate(i, "handle-misused", "", fmt.Sprintf("handle %d on %s: %d operations after close, %d overlapping operations", h.ID, h.File, h.OpsAfter, h.Overlaps), wit(h))
				return
			}
		}
		rc.Res.Count("handles_opened", int64(opened))
		if opened > 0 {
			rc.Res.Nontrivial(sw.d.Case, fmt.Sprintf("%+v", sc), "h")
		}
		if len(anoms) > 0 {
			rc.Violate(i, "handle-contract-breach", "", anoms[0], wit(anoms))
			return
		}
		if activeIters != 0 {
			rc.Violate(i, "iterator-still-active", "", fmt.Sprintf("%d MetaStore iterations had not returned when the cursor finished", activeIters), wit(nil))
			return
		}
		// goroutines and slots: poll to a stable state
		var ng int
		var gdump string
		slots := 0
		for t := 0; t < 100; t++ {
			ng, gdump = queryGoroutines()
			slots = sw.engs[sc.Variant].VerifQuerySlotsInUse()
			if ng == 0 && slots == 0 {
				break
			}
			time.Sleep(50 * time.Millisecond)
		}
		if ng != 0 {
			rc.Violate(i, "query-goroutine-leak", "", fmt.Sprintf("%d goroutines started for the query are still running 5 s after the cursor finished", ng), wit(core.Trunc(gdump, 6000)))
			return
		}
		if slots != 0 {
			rc.Violate(i, "query-slots-leaked", "", fmt.Sprintf("%d query concurrency slots still held after the query finished", slots), wit(nil))
			return
		}
		// no late operation on any handle of this query
		for _, h := range sw.w.IData.HandleSnapshot() {
			if !handlesBefore[h.ID] && (h.Closes != 1 || h.OpsAfter > 0) {
				rc.Violate(i, "handle-used-after-finish", "", fmt.Sprintf("handle %d: closes=%d ops-after-close=%d after settling", h.ID, h.Closes, h.OpsAfter), wit(h))
				return
			}
		}
	}

	if forProp == "C23" {
		res := &world.QueryResult{Rows: out.rows, VIDs: map[string]int{}, Err: out.errAfter, Stats: out.stats}
		for _, row := range out.rows {
			res.VIDs[world.VidOfRow(row)]++
		}
		clean := !terminatedEarly && len(injected) == 0 && out.errAfter == nil
		swit := func(extra any) map[string]any {
			return map[string]any{"script": sc, "data": sw.d, "stats": out.stats, "detail": extra}
		}
		// with failures the "all or none" clause still holds (failed files record every block)
		if checkStats(rc, i, sw.inv, q, res, clean, terminatedEarly, swit) && len(out.stats.BlockStats) > 0 {
			rc.Res.Nontrivial(sw.d.Case, fmt.Sprintf("%+v", sc), "s")
		}
		rc.Res.Count("queries", 1)
	}
	if k == 0 && i < 3 {
		rc.Res.Sample(map[string]any{"script": sc, "data": sw.d, "rows_seen": len(out.rows), "err": fmt.Sprint(out.errAfter), "store_calls": len(calls), "injected": injected})
	}
}

func sameErr(a, b error) bool {
	if a == nil || b == nil {
		return a == nil && b == nil
	}
	return a.Error() == b.Error()
}

// scheduleSig hashes the interleaving of store-call kinds.
func scheduleSig(calls []stores.Call) string {
	var sb strings.Builder
	for _, c := range calls {
		sb.WriteByte(c.Kind[0])
	}
	return sb.String()
}

// slowLogHandler is a slog.Handler that discards records but takes 0.2-3 ms over every second
// one (and yields on the others), like a sink that writes somewhere.
type slowLogHandler struct {
	mu  sync.Mutex
	rnd *core.Rand
}

func (h *slowLogHandler) Enabled(context.Context, slog.Level) bool { return true }
func (h *slowLogHandler) Handle(context.Context, slog.Record) error {
	h.mu.Lock()
	d := 0
	if h.rnd.Bool() {
		d = h.rnd.Range(200, 3000)
	}
	h.mu.Unlock()
	if d > 0 {
		time.Sleep(time.Duration(d) * time.Microsecond)
	} else {
		runtime.Gosched()
	}
	return nil
}
func (h *slowLogHandler) WithAttrs([]slog.Attr) slog.Handler { return h }
func (h *slowLogHandler) WithGroup(string) slog.Handler      { return h }
