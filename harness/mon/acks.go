package mon

import (
	"bytes"
	"context"
	"fmt"
	"sort"
	"strings"

	bs "github.com/danthegoodman1/bloomsearch"

	"verifharness/core"
	"verifharness/gen"
	"verifharness/stores"
	"verifharness/world"
)

func init() {
	Register(&Check{
		Spec: core.Spec{ID: "C06", Level: "fault_enumeration",
			Rule:        "case = one sequential ingest history (good, empty and unmarshalable batches, limit-triggered and explicit flushes; DataStore = in-memory with/without Abort and with real or deferred deletion, or FileSystemDataStore; MetaStore = MemoryMetaStore behind the fault wrapper). The history is first run fault-free to record its n flush-path store calls (CreateFile, Write, Close, Update; Abort/TombstoneFile appear in failing runs), then re-run once per position i with call i failing before its effect (two thirds of the failing Updates return an error wrapping context.DeadlineExceeded / context.Canceled although the engine's context is live, as a store with its own timeout does), once more for Close with the effect applied and an error returned, then once per cleanup call (Abort/TombstoneFile) of each failing run, plus PRNG pairs. After every Flush and at the end the answers are compared with what match-all queries on this engine and on a fresh engine see. evaluations = runs; non-trivial = run in which a fault was reached; distinct = distinct (history, fault positions); exhaustive over single positions of each explored history",
			Assumptions: []string{"MetaStore.Update is atomic: an injected Update failure applies nothing", "single sequential client, so the store-call sequence of a history is deterministic (MaxBufferedTime = 1h: no time trigger)"},
			Floors:      map[string]int64{"histories": 6, "runs_with_fault_reached": 150, "acks_nil_checked": 300, "acks_error_checked": 100, "update_faults_wrapping_context_error": 10}},
		Cases: func(t string) int { return nQueries(t, 16, 320) },
		Run:   runC06,
	})
}

type c06Step struct {
	Op    string `json:"op"` // ingest, flush
	Batch string `json:"batch,omitempty"`
	N     int    `json:"n,omitempty"`
}

type c06Fault struct {
	Pos  int  `json:"pos"` // index among flush-path calls
	Post bool `json:"post_effect"`
}

type c06Run struct {
	calls   []stores.Call // flush-path calls only
	reached []c06Fault
	viol    string
	wit     any
	nilAcks int
	errAcks int
}

var flushPathKinds = map[string]bool{"CreateFile": true, "Write": true, "Close": true, "Abort": true, "Update": true, "TombstoneFile": true}

// c06Execute runs the history once with the given faults.
func c06Execute(rc *RunCtx, i int, seedRand *core.Rand, steps []c06Step, storeKind string, faults []c06Fault) *c06Run {
	r := seedRand.Split("exec") // identical across re-runs: same rows, same spec
	caseID := fmt.Sprintf("c06_%d_%d", rc.Seed, i)
	v := gen.NewVocab(r.Split("vocab"))
	tok := gen.Tokenizers[0]
	kind := world.StoreMem
	if storeKind == "fs" {
		kind = world.StoreMix
	}
	if storeKind == "fs-both" {
		// FileSystemDataStore as MetaStore too: for flush-only histories its Update is a no-op
		// (publication happens at Close), so "an error means nothing applied" holds trivially
		kind = world.StoreFS
	}
	w := world.New(caseID, kind, v, tok)
	defer w.Close()
	if w.Mem != nil {
		w.Mem.WithAbort = storeKind != "mem-noabort"
		w.Mem.RealDelete = storeKind != "mem-nogc"
	}
	clock := &stores.Clock{}
	log := stores.NewLog(clock)
	w.Instrument(log)
	run := &c06Run{}
	pos := 0
	log.Plan = &stores.Plan{Decide: func(c *stores.Call) stores.Action {
		if !flushPathKinds[c.Kind] {
			return stores.Action{}
		}
		p := pos
		pos++
		for _, f := range faults {
			if f.Pos == p {
				run.reached = append(run.reached, f)
				act := stores.Action{Fail: true, PostEffect: f.Post && c.Kind != "Update" && c.Kind != "CreateFile"}
				if c.Kind == "Update" {
					// two thirds of the failing Updates report the failure the way a remote
					// metastore with its own timeout does: an error wrapping a context error,
					// while the context the engine passed is still live (nothing was applied)
					switch (p + i) % 3 {
					case 1:
						act.Err = fmt.Errorf("%w: Update#%d: metastore request timed out: %w", stores.ErrInjected, p, context.DeadlineExceeded)
						rc.Res.Count("update_faults_wrapping_context_error", 1)
					case 2:
						act.Err = fmt.Errorf("%w: Update#%d: metastore request abandoned: %w", stores.ErrInjected, p, context.Canceled)
						rc.Res.Count("update_faults_wrapping_context_error", 1)
					}
				}
				return act
			}
		}
		return stores.Action{}
	}}
	spec := gen.PickEngineSpec(r.Split("spec"), v, tok)
	spec.Compression = core.Pick(r, []string{"none", "snappy", "zstd"})
	spec.ZstdLevel = 1
	spec.BufRows = core.Pick(r, []int{3, 6, 12, 1000})
	spec.BufBytes = 1 << 20
	spec.RGRows = core.Pick(r, []int{4, 1000})
	spec.RGBytes = 10 << 20
	spec.IngestBuf = 100
	if _, err := w.AddEngine(spec); err != nil {
		run.viol = "engine: " + err.Error()
		return run
	}
	e := w.Eng[0]
	rr := r.Split("rows")
	type batch struct {
		id       int
		kind     string
		recs     []*world.RowRec
		ch       chan error
		answered bool
		err      error
	}
	var batches []*batch
	expect := func(when string) bool {
		// collect answers that have arrived
		for _, b := range batches {
			if b.answered {
				continue
			}
			select {
			case err := <-b.ch:
				b.answered, b.err = true, err
				if err == nil {
					run.nilAcks++
				} else {
					run.errAcks++
				}
				select {
				case extra := <-b.ch:
					run.viol = fmt.Sprintf("%s: batch %d answered twice (second: %v)", when, b.id, extra)
					return false
				default:
				}
			default:
			}
		}
		want := map[string]int{}
		forbidden := map[string]bool{}
		for _, b := range batches {
			if !b.answered {
				run.viol = fmt.Sprintf("%s: batch %d (%s) has no answer although a later Flush returned", when, b.id, b.kind)
				return false
			}
			if b.kind == "unmarshalable" && b.err == nil {
				run.viol = fmt.Sprintf("%s: batch %d holds an unmarshalable row but was answered nil", when, b.id)
				return false
			}
			for _, rec := range b.recs {
				if b.err == nil {
					want[rec.VID]++
				} else {
					forbidden[rec.VID] = true
				}
			}
		}
		fresh, err := bs.NewBloomSearchEngine(spec.Config(), w.Meta, w.Data)
		if err != nil {
			run.viol = "fresh engine: " + err.Error()
			return false
		}
		for name, eng := range map[string]*bs.BloomSearchEngine{"this engine": e, "a fresh engine": fresh} {
			ctx, cancel := context.WithTimeout(context.Background(), core.Patience)
			res := world.RunQuery(ctx, eng, &bs.Query{})
			cancel()
			if res.QErr != nil || res.Err != nil {
				run.viol = fmt.Sprintf("%s: match-all query on %s failed: %v %v", when, name, res.QErr, res.Err)
				return false
			}
			for vid, n := range want {
				if res.VIDs[vid] != n {
					run.viol = fmt.Sprintf("%s: row %s of a batch answered nil is visible %d times on %s (expected %d)", when, vid, res.VIDs[vid], name, n)
					return false
				}
			}
			// "error means absent" is stated for a MetaStore whose Update is atomic. With the
			// directory itself as MetaStore a file is visible from its Close, so a failed
			// Close-with-effect followed by a failed cleanup leaves it visible: that clause is
			// only asserted there while at most one fault was reached.
			absentClause := storeKind != "fs-both" || len(run.reached) <= 1
			for vid := range res.VIDs {
				if forbidden[vid] && !absentClause {
					continue
				}
				if forbidden[vid] {
					run.viol = fmt.Sprintf("%s: row %s of a batch answered with an error is visible on %s", when, vid, name)
					return false
				}
				if _, ok := want[vid]; !ok {
					run.viol = fmt.Sprintf("%s: row %s visible on %s but no batch holding it was answered nil", when, vid, name)
					return false
				}
			}
		}
		return true
	}
	for si, st := range steps {
		switch st.Op {
		case "ingest":
			b := &batch{id: len(batches), kind: st.Batch, ch: make(chan error, 2)}
			var rows []map[string]any
			switch st.Batch {
			case "empty":
				rows = []map[string]any{}
			case "unmarshalable":
				for k := 0; k < st.N; k++ {
					rec := w.NewRow(rr, 0)
					b.recs = append(b.recs, rec)
					rows = append(rows, rec.Row)
				}
				bad := map[string]any{"_vid": fmt.Sprintf("bad%d", si), "f": func() {}}
				pos := len(rows) / 2
				rows = append(rows[:pos], append([]map[string]any{bad}, rows[pos:]...)...)
			default:
				for k := 0; k < st.N; k++ {
					rec := w.NewRow(rr, 0)
					b.recs = append(b.recs, rec)
					rows = append(rows, rec.Row)
				}
			}
			if err := e.IngestRows(context.Background(), rows, b.ch); err != nil {
				run.viol = "IngestRows refused: " + err.Error()
				return run
			}
			batches = append(batches, b)
		case "flush":
			ctx, cancel := context.WithTimeout(context.Background(), core.Patience)
			e.Flush(ctx) // its own result is not the subject; the batches' answers are
			cancel()
			if !expect(fmt.Sprintf("after step %d (flush)", si)) {
				run.wit = map[string]any{"store_calls": flushCalls(log)}
				return run
			}
		}
	}
	ctx, cancel := context.WithTimeout(context.Background(), core.Patience)
	e.Flush(ctx)
	cancel()
	if !expect("at the end") {
		run.wit = map[string]any{"store_calls": flushCalls(log)}
		return run
	}
	// referenced files are complete and readable, and describe themselves (a committed file that
	// does not parse is not durable in any useful sense: a store that keeps metadata in the
	// files, or a recovery tool, cannot see its rows)
	inv, err := w.Inventory()
	if err != nil {
		run.viol = "a file referenced by the MetaStore is not readable: " + err.Error()
	}
	for _, f := range inv {
		raw, rerr := w.FileBytes(f.Ptr)
		if rerr != nil {
			continue
		}
		if _, _, perr := bs.ReadFileMetadata(bytes.NewReader(raw)); perr != nil {
			run.viol = fmt.Sprintf("file %s was committed to the MetaStore and its batches answered nil, but it does not parse with ReadFileMetadata: %v", f.Ptr, perr)
		}
	}
	run.calls = flushCalls(log)
	return run
}

func flushCalls(log *stores.Log) []stores.Call {
	var out []stores.Call
	for _, c := range log.Snapshot() {
		if flushPathKinds[c.Kind] {
			out = append(out, c)
		}
	}
	return out
}

func kindsOf(calls []stores.Call) string {
	var sb strings.Builder
	for _, c := range calls {
		sb.WriteString(c.Kind[:2])
	}
	return sb.String()
}

func runC06(rc *RunCtx, i int) {
	r := rc.CaseRand(i)
	storeKind := core.Pick(r, []string{"mem", "mem", "mem-noabort", "mem-nogc", "fs", "fs-both", "fs-both"})
	var steps []c06Step
	ns := r.Range(4, 10)
	for k := 0; k < ns; k++ {
		switch r.Intn(8) {
		case 0:
			steps = append(steps, c06Step{Op: "flush"})
		case 1:
			steps = append(steps, c06Step{Op: "ingest", Batch: "empty"})
		case 2:
			steps = append(steps, c06Step{Op: "ingest", Batch: "unmarshalable", N: r.Range(0, 4)})
		default:
			steps = append(steps, c06Step{Op: "ingest", Batch: "normal", N: r.Range(1, 6)})
		}
	}
	desc := map[string]any{"case": rc.CaseID(i), "stores": storeKind, "steps": steps}
	base := c06Execute(rc, i, r, steps, storeKind, nil)
	rc.Res.Eval(1)
	if base.viol != "" {
		rc.Violate(i, "fault-free-history-wrong", "", base.viol, map[string]any{"history": desc, "detail": base.wit})
		return
	}
	rc.Res.Count("histories", 1)
	rc.Res.Count("positions", int64(len(base.calls)))
	rc.Res.Count("stores."+storeKind, 1)
	n := len(base.calls)
	report := func(fs []c06Fault, run *c06Run) {
		rc.Violate(i, "untruthful-ack", "", run.viol, map[string]any{"history": desc, "faults": fs, "fault_free_calls": kindsOf(base.calls), "detail": run.wit})
	}
	tally := func(run *c06Run, fs []c06Fault) {
		rc.Res.Eval(1)
		rc.Res.Count("acks_nil_checked", int64(run.nilAcks))
		rc.Res.Count("acks_error_checked", int64(run.errAcks))
		if len(run.reached) > 0 {
			rc.Res.Count("runs_with_fault_reached", 1)
			rc.Res.Nontrivial(rc.CaseID(i), fmt.Sprintf("%+v", fs))
		}
	}
	for p := 0; p < n; p++ {
		variants := []c06Fault{{Pos: p}}
		if base.calls[p].Kind == "Close" {
			variants = append(variants, c06Fault{Pos: p, Post: true})
		}
		for _, f := range variants {
			run := c06Execute(rc, i, r, steps, storeKind, []c06Fault{f})
			tally(run, []c06Fault{f})
			rc.Res.Count("single."+base.calls[p].Kind, 1)
			if run.viol != "" {
				report([]c06Fault{f}, run)
				return
			}
			// second level: every cleanup call this failure provoked, and the call right after
			if run.calls == nil {
				continue
			}
			var seconds []int
			for q := p + 1; q < len(run.calls) && q <= p+4; q++ {
				if k := run.calls[q].Kind; k == "Abort" || k == "TombstoneFile" || k == "Close" {
					seconds = append(seconds, q)
				}
			}
			for _, q := range seconds {
				for _, post := range []bool{false, true} {
					fs := []c06Fault{f, {Pos: q, Post: post}}
					run2 := c06Execute(rc, i, r, steps, storeKind, fs)
					tally(run2, fs)
					rc.Res.Count("pair.cleanup."+run.calls[q].Kind, 1)
					if run2.viol != "" {
						report(fs, run2)
						return
					}
				}
			}
		}
	}
	// PRNG pairs over the fault-free positions
	pr := r.Split("pairs")
	np := 12
	if rc.Tier == "thorough" {
		np = 20
	}
	for k := 0; k < np && n >= 2; k++ {
		a, b := pr.Intn(n), pr.Intn(n)
		if a == b {
			continue
		}
		if a > b {
			a, b = b, a
		}
		fs := []c06Fault{{Pos: a, Post: pr.Bool()}, {Pos: b, Post: pr.Bool()}}
		run := c06Execute(rc, i, r, steps, storeKind, fs)
		tally(run, fs)
		rc.Res.Count("pair.random", 1)
		if run.viol != "" {
			report(fs, run)
			return
		}
	}
	if i < 3 {
		ks := map[string]int{}
		for _, c := range base.calls {
			ks[c.Kind]++
		}
		var kk []string
		for k, v := range ks {
			kk = append(kk, fmt.Sprintf("%s:%d", k, v))
		}
		sort.Strings(kk)
		rc.Res.Sample(map[string]any{"history": desc, "fault_free_store_calls": kk, "positions": n})
	}
}
