package mon

import (
	"bytes"
	"context"
	"encoding/json"
	"fmt"
	"os"
	"os/exec"
	"regexp"
	"strconv"
	"strings"
	"sync"
	"time"

	bs "github.com/danthegoodman1/bloomsearch"

	"verifharness/core"
	"verifharness/gen"
	"verifharness/stores"
	"verifharness/world"
)

func init() {
	AuxHandlers["c27child"] = c27Child
	Register(&Check{
		Spec: core.Spec{ID: "C27", Level: "exploration",
			Rule:        "case = a child process that runs only engine operations with no Logger configured (built without -race, whose reports go to stderr by design) while its fd 1 and fd 2 are captured to files and its own summary goes to a separate file: ingest (good and unmarshalable batches), limit/time-triggered and explicit flushes with store failures injected at every flush-path call kind, queries (clean, cancelled, over corrupt and truncated files, over external-writer files whose block/file filters are absent: the 'missing filter' warnings), merges with failures, Stop under a deadline with a wedged store on both abandonment paths; in-memory and filesystem stores. Oracle: zero bytes on both descriptors and exit status 0. Thorough adds an strace -f -e trace=write cross-check (no write(1|2, ...) syscall at all). non-trivial = child that reached at least 4 of the warning-producing paths; distinct = distinct child summaries",
			Assumptions: []string{"the child itself never prints; a panic (non-zero exit) is reported as a crash"},
			Floors:      map[string]int64{"children_run": 20, "path.flush_store_failure": 20, "path.missing_filter_query": 10, "path.stop_deadline_abandon": 10, "path.corrupt_file_query": 10}},
		Cases: func(t string) int { return nQueries(t, 32, 1500) },
		Run:   runC27,
	})
}

var writeRe = regexp.MustCompile(`write\((1|2), `)

func runC27(rc *RunCtx, i int) {
	self, _ := os.Executable()
	base := scratch("c27", fmt.Sprintf("%d-%d-%d", rc.Seed, i, os.Getpid()))
	os.MkdirAll(base, 0o755)
	defer os.RemoveAll(base)
	outPath, errPath, sumPath := base+"/stdout", base+"/stderr", base+"/summary.json"
	of, _ := os.Create(outPath)
	ef, _ := os.Create(errPath)
	args := []string{"--aux", "c27child", fmt.Sprint(rc.Seed), fmt.Sprint(i), sumPath}
	useStrace := false
	tracePath := base + "/strace.txt"
	if rc.Tier == "thorough" && i%40 == 0 {
		if _, err := exec.LookPath("strace"); err == nil {
			useStrace = true
		}
	}
	var cmd *exec.Cmd
	if useStrace {
		cmd = exec.Command("strace", append([]string{"-f", "-e", "trace=write", "-o", tracePath, self}, args...)...)
	} else {
		cmd = exec.Command(self, args...)
	}
	cmd.Stdout, cmd.Stderr = of, ef
	cmd.Env = append(os.Environ(), "GOTRACEBACK=all")
	err := cmd.Start()
	if err != nil {
		rc.Res.Inconc("cannot start C27 child: " + err.Error())
		return
	}
	done := make(chan error, 1)
	go func() { done <- cmd.Wait() }()
	var werr error
	select {
	case werr = <-done:
	case <-time.After(core.Patience):
		cmd.Process.Kill()
		<-done
		rc.Res.Inconc("C27 child watchdog")
		return
	}
	of.Close()
	ef.Close()
	ob, _ := os.ReadFile(outPath)
	eb, _ := os.ReadFile(errPath)
	rc.Res.Eval(1)
	rc.Res.Count("children_run", 1)
	var sum map[string]int64
	if b, err := os.ReadFile(sumPath); err == nil {
		json.Unmarshal(b, &sum)
	}
	reached := 0
	for k, v := range sum {
		rc.Res.Count(k, v)
		if strings.HasPrefix(k, "path.") && v > 0 {
			reached++
		}
	}
	if werr != nil {
		rc.Violate(i, "child-crash", "", fmt.Sprintf("engine-only child exited with %v", werr), core.Trunc(string(eb), 6000))
		return
	}
	if len(ob) > 0 || len(eb) > 0 {
		rc.Violate(i, "engine-wrote-to-std-streams", "", fmt.Sprintf("with no Logger configured the engine wrote %d bytes to stdout and %d bytes to stderr", len(ob), len(eb)),
			map[string]any{"stdout": core.Trunc(string(ob), 2000), "stderr": core.Trunc(string(eb), 2000), "summary": sum})
		return
	}
	if useStrace {
		tb, _ := os.ReadFile(tracePath)
		rc.Res.Count("strace_children", 1)
		if m := writeRe.Find(tb); m != nil {
			idx := strings.Index(string(tb), string(m))
			rc.Violate(i, "write-syscall-on-std-stream", "", "strace saw a write(2) on fd 1/2", core.Trunc(string(tb[idx:]), 1000))
			return
		}
	}
	if reached >= 4 {
		rc.Res.Nontrivial(fmt.Sprint(sum))
	}
	if i < 3 {
		rc.Res.Sample(map[string]any{"child": i, "summary": sum, "stdout_bytes": len(ob), "stderr_bytes": len(eb), "strace": useStrace})
	}
}

// c27Child runs engine operations only. It must never print.
func c27Child(args []string) int {
	if len(args) < 3 {
		return 2
	}
	seed, _ := strconv.ParseInt(args[0], 10, 64)
	ci, _ := strconv.Atoi(args[1])
	sum := map[string]int64{}
	var smu sync.Mutex
	count := func(k string) { smu.Lock(); sum[k]++; smu.Unlock() }
	r := core.NewRand(uint64(seed)).Split("C27", ci)
	kind := world.StoreMem
	if ci%3 == 2 {
		kind = world.StoreFS
	}
	v := gen.NewVocab(r.Split("vocab"))
	tok := gen.PickTokenizer(r.Split("tok"))
	w := world.New(fmt.Sprintf("c27_%d_%d", seed, ci), kind, v, tok)
	defer w.Close()
	log := stores.NewLog(&stores.Clock{})
	w.Instrument(log)
	pf := 0.0
	mode, modeBase := "", 0
	gate := stores.NewGate(false)
	gateOn := false
	pr := r.Split("plan")
	var pmu sync.Mutex
	log.Plan = &stores.Plan{Decide: func(c *stores.Call) stores.Action {
		pmu.Lock()
		defer pmu.Unlock()
		if gateOn && (c.Kind == "Write" || c.Kind == "CreateFile") {
			return stores.Action{Gate: gate}
		}
		// targeted multi-fault modes: a primary failure and the failure of the cleanup it provokes
		switch mode {
		case "update+cleanup":
			if c.Kind == "Update" || c.Kind == "TombstoneFile" || c.Kind == "Abort" {
				count("modefault." + mode + "." + c.Kind)
				return stores.Action{Fail: true}
			}
		case "write+cleanup":
			if (c.Kind == "Write" && c.N%3 == 2) || c.Kind == "TombstoneFile" || c.Kind == "Abort" {
				count("modefault." + mode + "." + c.Kind)
				return stores.Action{Fail: true}
			}
		case "close+cleanup":
			if c.Kind == "Close" || c.Kind == "TombstoneFile" || c.Kind == "Abort" {
				count("modefault." + mode + "." + c.Kind)
				return stores.Action{Fail: true, PostEffect: c.Kind == "Close" && c.N%2 == 0}
			}
		case "postcommit-cleanup":
			if c.Kind == "TombstoneFile" {
				count("modefault." + mode + "." + c.Kind)
				return stores.Action{Fail: true}
			}
		case "latecreate+cleanup":
			if (c.Kind == "CreateFile" && c.N > modeBase) || c.Kind == "TombstoneFile" || c.Kind == "Abort" {
				count("modefault." + mode + "." + c.Kind)
				return stores.Action{Fail: true}
			}
		}
		switch c.Kind {
		case "CreateFile", "Write", "Close", "Abort", "Update", "TombstoneFile", "OpenFile", "Read", "Seek", "IterYield", "RClose":
			if pf > 0 && pr.Chance(pf) {
				count("path.flush_store_failure")
				return stores.Action{Fail: true}
			}
		}
		return stores.Action{}
	}}
	spec := gen.PickEngineSpec(r.Split("spec"), v, tok)
	spec.BufRows = core.Pick(r, []int{2, 5, 50})
	spec.IngestBuf = core.Pick(r, []int{1, 4, 50})
	if ci%2 == 0 {
		// merge-friendly: few partitions, no minmax key sets, generous limits, so that Merge
		// really publishes outputs (and several groups with a small per-file budget)
		spec.Part = core.Pick(r, []gen.PartFunc{{Name: "none"}, {Name: "bucket:2", Fn: gen.PickPartFuncBucket(2)}, {Name: "bucket:4", Fn: gen.PickPartFuncBucket(4)}})
		spec.Partition = spec.Part.Name
		spec.MinMax = nil
		spec.RGRows, spec.RGBytes = 1000, 10<<20
		spec.MergeFiles = core.Pick(r, []int{4, 10})
		spec.MaxFileSize = core.Pick(r, []int{2500, 10 << 30})
	}
	cfg := spec.Config()
	cfg.MaxBufferedTime = 40 * time.Millisecond
	cfg.Logger = nil
	e, err := bs.NewBloomSearchEngine(cfg, w.IMeta, w.IData)
	if err != nil {
		return 3
	}
	w.Specs = append(w.Specs, spec)
	w.Eng = append(w.Eng, e)
	e.Start()
	rr := r.Split("rows")
	ingest := func(kindB string) {
		rows, _ := makeBatch(rr, w, kindB)
		ch := make(chan error, 2)
		ctx, cancel := context.WithTimeout(context.Background(), 2*time.Second)
		if e.IngestRows(ctx, rows, ch) == nil {
			count("ingest_accepted")
		}
		cancel()
	}
	flush := func() {
		ctx, cancel := context.WithTimeout(context.Background(), 10*time.Second)
		if e.Flush(ctx) != nil {
			count("flush_errors")
		}
		cancel()
	}
	// 1. healthy traffic incl. unmarshalable rows, time-triggered flush
	for k := 0; k < 6; k++ {
		ingest(core.Pick(r, []string{"normal", "normal", "unmarshalable", "empty"}))
	}
	count("path.unmarshalable_batch")
	time.Sleep(150 * time.Millisecond) // time trigger
	flush()
	// 2. store failures on the flush, query and merge paths
	pf = 0.25
	for k := 0; k < 10; k++ {
		ingest("normal")
		if k%3 == 0 {
			flush()
		}
	}
	flush()
	for k := 0; k < 4; k++ {
		ctx, cancel := context.WithTimeout(context.Background(), 10*time.Second)
		res := world.RunQuery(ctx, e, bs.NewQuery().Field("_vid").Build())
		cancel()
		if res.Err != nil {
			count("query_errors")
		}
		mctx, mcancel := context.WithTimeout(context.Background(), 10*time.Second)
		if _, err := e.Merge(mctx); err != nil {
			count("path.merge_failure")
		}
		mcancel()
	}
	pf = 0
	flush()
	// 2b. a primary failure plus the failure of the cleanup it provokes, on the flush and merge
	// paths (the paths that have something to report that nobody asked for)
	setMode := func(m string) {
		// lock order: the log calls Decide (which takes pmu) under its own mutex, so the log
		// must never be consulted while pmu is held (an ABBA deadlock froze 8 of 1500 children
		// of one thorough run: "C27 child watchdog")
		n := log.Count("CreateFile")
		pmu.Lock()
		mode, modeBase = m, n
		pmu.Unlock()
	}
	for _, m := range []string{"update+cleanup", "write+cleanup", "close+cleanup", "latecreate+cleanup", "postcommit-cleanup"} {
		// several small files to merge
		for k := 0; k < 4; k++ {
			ingest("normal")
			flush()
		}
		setMode(m)
		mctx, mcancel := context.WithTimeout(context.Background(), 10*time.Second)
		if _, err := e.Merge(mctx); err != nil {
			count("path.merge_failure_with_failed_cleanup." + m)
		}
		mcancel()
		if m != "postcommit-cleanup" && m != "latecreate+cleanup" {
			ingest("normal")
			flush() // the same double fault on the flush path
			count("path.flush_failure_with_failed_cleanup")
		}
		setMode("")
	}
	// a Merge whose context is cancelled while it runs, against a store that then fails every call
	for k := 0; k < 3; k++ {
		ingest("normal")
		flush()
	}
	{
		mctx, mcancel := context.WithCancel(context.Background())
		nw := log.Count("Write")
		pmu.Lock()
		cancelAt := nw + pr.Range(0, 3)
		pmu.Unlock()
		go func() {
			for t := 0; t < 2000 && log.Count("Write") <= cancelAt; t++ {
				time.Sleep(100 * time.Microsecond)
			}
			setMode("update+cleanup")
			mcancel()
		}()
		if _, err := e.Merge(mctx); err != nil {
			count("path.merge_cancelled")
		}
		mcancel()
		setMode("")
	}
	// 3. external-writer files with absent filters: the "missing filter" warnings
	if xd, err := w.AddExtFile(r.Split("ext"), 0, 12, 0); err == nil {
		_ = xd
		facts := w.Facts()
		qr := r.Split("q")
		for k := 0; k < 8; k++ {
			q := facts.Query(qr)
			if q.Regex != nil {
				q.Regex = nil
			}
			ctx, cancel := context.WithTimeout(context.Background(), 10*time.Second)
			world.RunQuery(ctx, e, q)
			cancel()
			count("path.missing_filter_query")
		}
	}
	// a file whose filters are all absent, queried with every condition kind
	if w.Mem != nil {
		if _, err := w.AddExtFile(r.Split("ext2"), 0, 6, 0); err == nil {
			for _, q := range []*bs.Query{bs.NewQuery().Field("_vid").Build(), bs.NewQuery().Token("error").Build(), bs.NewQuery().FieldToken("level", "error").Build()} {
				ctx, cancel := context.WithTimeout(context.Background(), 10*time.Second)
				world.RunQuery(ctx, e, q)
				cancel()
			}
		}
	}
	// 4. cancelled and closed queries
	for k := 0; k < 3; k++ {
		ctx, cancel := context.WithCancel(context.Background())
		rs, err := e.Query(ctx, &bs.Query{})
		if err == nil {
			rs.Next()
			if k%2 == 0 {
				cancel()
			}
			rs.Close()
			for rs.Next() {
			}
			_ = rs.Err()
			count("path.cancelled_query")
		}
		cancel()
	}
	// invalid regex
	if _, err := e.Query(context.Background(), bs.NewQuery().FieldRegex("a", "(").Build()); err != nil {
		count("path.invalid_regex")
	}
	// 5. corrupt and truncated files
	if w.Mem != nil {
		for _, p := range w.Mem.Pointers() {
			b, _ := w.Mem.Get(p)
			if len(b) < 40 {
				continue
			}
			c := append([]byte(nil), b...)
			switch pr.Intn(3) {
			case 0:
				c[pr.Intn(len(c))] ^= 0x5a
			case 1:
				c = c[:len(c)/2]
			default:
				for j := 0; j < 16 && j < len(c); j++ {
					c[j] ^= 0xff
				}
			}
			w.Mem.Set(p, c)
			if pr.Chance(0.5) {
				break
			}
		}
	} else {
		ents, _ := os.ReadDir(w.Dir)
		for _, en := range ents {
			if strings.HasSuffix(en.Name(), ".dat") && pr.Chance(0.5) {
				path := w.Dir + "/" + en.Name()
				if b, err := os.ReadFile(path); err == nil && len(b) > 40 {
					if pr.Bool() {
						b[pr.Intn(len(b))] ^= 0x5a
					} else {
						b = b[:len(b)-pr.Range(1, 30)]
					}
					os.WriteFile(path, b, 0o600)
				}
			}
		}
		os.WriteFile(w.Dir+"/garbage.dat", []byte("not a bloom file"), 0o600)
		os.WriteFile(w.Dir+"/empty.dat", nil, 0o600)
	}
	// the public helpers over the damaged files, the conversion functions on odd values, and
	// expression JSON that does not parse: none of this may print either
	helperFiles := [][]byte{[]byte("not a bloom file"), {}, bytes.Repeat([]byte{0xff}, 64)}
	if w.Mem != nil {
		for _, p := range w.Mem.Pointers() {
			if b, ok := w.Mem.Get(p); ok {
				helperFiles = append(helperFiles, b)
			}
		}
	} else if ents, err := os.ReadDir(w.Dir); err == nil {
		for _, en := range ents {
			if b, err := os.ReadFile(w.Dir + "/" + en.Name()); err == nil {
				helperFiles = append(helperFiles, b)
			}
		}
	}
	for _, fb := range helperFiles {
		md, _, err := bs.ReadFileMetadata(bytes.NewReader(fb))
		if err != nil {
			count("path.helper_rejected_file")
			continue
		}
		for bi := range md.DataBlocks {
			blk := md.DataBlocks[bi]
			bs.ReadDataBlockBloomFilters(bytes.NewReader(fb), blk)
			if rd, err := bs.ReadDataBlockRowData(bytes.NewReader(fb), &blk); err == nil {
				sc := bs.NewBlockRowScanner(rd)
				for {
					if _, ok, err := sc.Next(); !ok || err != nil {
						break
					}
				}
			}
			count("path.helper_read_block")
		}
	}
	cr := r.Split("conv")
	for k := 0; k < 200; k++ {
		v := gen.NumberOrInf(cr)
		bs.ConvertToMinMaxInt64(v)
		bs.ConvertToInt64(v)
	}
	bs.ConvertToMinMaxInt64("text")
	bs.ConvertToMinMaxInt64(nil)
	bs.ConvertToMinMaxInt64(struct{}{})
	for _, js := range []string{`{`, `{"Bloom":{"Expression":{"ExpressionType":"NOPE"}}}`, `{"Prefilter":{"Expression":{"ExpressionType":"CONDITION","Condition":{"ConditionType":"GEO"}}}}`, `[]`, `null`, `{"Regex":{"Expression":{"ExpressionType":"CONDITION","Condition":{"Field":"a","Pattern":"("}}}}`} {
		var q bs.Query
		if json.Unmarshal([]byte(js), &q) == nil {
			ctx, cancel := context.WithTimeout(context.Background(), 10*time.Second)
			world.RunQuery(ctx, e, &q)
			cancel()
		}
		count("path.odd_query_json")
	}
	for k := 0; k < 4; k++ {
		ctx, cancel := context.WithTimeout(context.Background(), 10*time.Second)
		res := world.RunQuery(ctx, e, core.Pick(r, []*bs.Query{{}, bs.NewQuery().Field("_vid").Build()}))
		cancel()
		if res.Err != nil {
			count("query_errors")
		}
		count("path.corrupt_file_query")
		mctx, mcancel := context.WithTimeout(context.Background(), 10*time.Second)
		e.Merge(mctx)
		mcancel()
	}
	// 6. Stop under a deadline with a wedged store: both abandonment paths
	pmu.Lock()
	gateOn = true
	pmu.Unlock()
	var iwg sync.WaitGroup
	for k := 0; k < 8; k++ {
		iwg.Add(1)
		go func() {
			defer iwg.Done()
			rows := []map[string]any{{"_vid": "late", "x": 1}, {"_vid": "late2", "x": 2}, {"_vid": "late3"}, {"_vid": "late4"}, {"_vid": "late5"}}
			ctx, cancel := context.WithTimeout(context.Background(), 400*time.Millisecond)
			e.IngestRows(ctx, rows, make(chan error)) // abandoned unbuffered channel
			cancel()
		}()
	}
	time.Sleep(30 * time.Millisecond)
	sctx, scancel := context.WithTimeout(context.Background(), 120*time.Millisecond)
	if e.Stop(sctx) != nil {
		count("path.stop_deadline_abandon")
	}
	scancel()
	gate.Open()
	iwg.Wait()
	time.Sleep(50 * time.Millisecond)
	// after Stop
	if e.IngestRows(context.Background(), nil, nil) != nil {
		count("path.ingest_after_stop")
	}
	b, _ := json.Marshal(sum)
	os.WriteFile(args[2], b, 0o644)
	return 0
}
