package mon

import (
	"bytes"
	"context"
	"encoding/json"
	"fmt"
	"strings"

	bs "github.com/danthegoodman1/bloomsearch"

	"verifharness/core"
	"verifharness/gen"
	"verifharness/refsem"
	"verifharness/world"
)

// ast is "the nested boolean combination the caller wrote": the harness builds
// it alongside the constructor/builder calls and evaluates it directly.
type ast struct {
	Op   string // "and", "or", "leaf", "true"
	Kids []*ast
	B    *bs.BloomExpression // leaf payloads (single-condition expressions)
	R    *bs.RegexExpression
	P    *bs.PrefilterExpression
}

func (a *ast) eval(leaf func(*ast) bool) bool {
	switch a.Op {
	case "true":
		return true
	case "leaf":
		return leaf(a)
	case "and":
		for _, k := range a.Kids {
			if !k.eval(leaf) {
				return false
			}
		}
		return true
	case "or":
		for _, k := range a.Kids {
			if k.eval(leaf) {
				return true
			}
		}
		return false
	}
	return false
}

func (a *ast) String() string {
	switch a.Op {
	case "true":
		return "TRUE"
	case "leaf":
		var v any = a.B
		if a.R != nil {
			v = a.R
		}
		if a.P != nil {
			v = a.P
		}
		b, _ := json.Marshal(v)
		return string(b)
	}
	var parts []string
	for _, k := range a.Kids {
		parts = append(parts, k.String())
	}
	return a.Op + "(" + strings.Join(parts, ",") + ")"
}

// genBloom builds a tree through the public constructors and the AST in step.
func genBloom(r *core.Rand, f *gen.DataFacts, depth int) (bs.BloomExpression, *ast) {
	if depth <= 0 || r.Chance(0.35) {
		e := f.BloomLeaf(r)
		return e, &ast{Op: "leaf", B: &e}
	}
	n := r.Range(0, 3)
	if n == 0 && r.Chance(0.8) {
		n = r.Range(1, 3)
	}
	kids := make([]bs.BloomExpression, n)
	a := &ast{}
	for i := range kids {
		var ka *ast
		kids[i], ka = genBloom(r, f, depth-1)
		a.Kids = append(a.Kids, ka)
	}
	if r.Bool() {
		a.Op = "and"
		return bs.And(kids...), a
	}
	a.Op = "or"
	return bs.Or(kids...), a
}

func genRegex(r *core.Rand, f *gen.DataFacts, depth int) (bs.RegexExpression, *ast) {
	if depth <= 0 || r.Chance(0.45) {
		e := f.RegexLeaf(r)
		return e, &ast{Op: "leaf", R: &e}
	}
	n := r.Range(0, 3)
	if n == 0 && r.Chance(0.8) {
		n = r.Range(1, 3)
	}
	kids := make([]bs.RegexExpression, n)
	a := &ast{}
	for i := range kids {
		var ka *ast
		kids[i], ka = genRegex(r, f, depth-1)
		a.Kids = append(a.Kids, ka)
	}
	if r.Bool() {
		a.Op = "and"
		return bs.RegexAnd(kids...), a
	}
	a.Op = "or"
	return bs.RegexOr(kids...), a
}

func genPrefilter(r *core.Rand, f *gen.DataFacts, depth int) (bs.PrefilterExpression, *ast) {
	if depth <= 0 || r.Chance(0.4) {
		e := f.PrefilterLeaf(r)
		return e, &ast{Op: "leaf", P: &e}
	}
	n := r.Range(0, 3)
	if n == 0 && r.Chance(0.8) {
		n = r.Range(1, 3)
	}
	kids := make([]bs.PrefilterExpression, n)
	a := &ast{}
	for i := range kids {
		var ka *ast
		kids[i], ka = genPrefilter(r, f, depth-1)
		a.Kids = append(a.Kids, ka)
	}
	if r.Bool() {
		a.Op = "and"
		return bs.PrefilterAnd(kids...), a
	}
	a.Op = "or"
	return bs.PrefilterOr(kids...), a
}

func init() {
	Register(&Check{
		Spec: core.Spec{ID: "C25", Level: "exploration",
			Rule:        "case = small in-memory corpus + batch of trees. Each bloom/regex/prefilter tree is built through the public constructors (nested And/Or of same and different kinds, empty and single-child combinators, nil-condition and unknown leaves) or a builder call sequence, while the harness records the boolean combination the caller wrote (AST). Verdicts of the engine (Query over the corpus; EvaluateDataBlockMetadata per block) must equal the AST evaluated with reference leaf semantics; every expression and whole Query is then round-tripped through encoding/json (same verdicts, second round trip byte-identical). non-trivial = tree with >= 2 leaves whose verdict differs across the corpus rows/blocks; distinct = distinct AST strings",
			Assumptions: []string{"builder semantics asserted are the documented ones: chained calls are an implicit AND; calls after Match/MatchRegex are ANDed onto it; MatchPrefilter sets the prefilter; chained calls made before a Match (reset by the code) carry no verdict", "strings are valid UTF-8"},
			Floors:      map[string]int64{"trees": 300, "roundtrips": 300}},
		Cases: func(t string) int { return nQueries(t, 48, 2000) },
		Run:   runC25,
	})
}

func vidSetOfRecs(recs []*world.RowRec, pred func(*world.RowRec) bool) map[string]int {
	m := map[string]int{}
	for _, r := range recs {
		if pred(r) {
			m[r.VID] = r.Count
		}
	}
	return m
}

func runC25(rc *RunCtx, i int) {
	r := rc.CaseRand(i)
	caseID := fmt.Sprintf("%s%d_%d", strings.ToLower(rc.ID), rc.Seed, i)
	o := world.BuildOpts{MemOnly: true, NoMerge: true, MaxRows: 40, SingleSpec: true}
	w, d, err := world.Build(r.Split("world"), caseID, o)
	if err != nil {
		rc.Violate(i, "scenario-failed", "", err.Error(), nil)
		return
	}
	defer w.Close()
	facts := w.Facts()
	recs := w.StoredRecs()
	inv, err := w.Inventory()
	if err != nil {
		rc.Violate(i, "inventory-failed", "", err.Error(), d)
		return
	}
	var blocks []bs.DataBlockMetadata
	for _, f := range inv {
		for _, b := range f.Blocks {
			blocks = append(blocks, b.Meta)
		}
	}
	// synthetic blocks widen the metadata space for prefilter trees
	for k := 0; k < 6; k++ {
		b := bs.DataBlockMetadata{PartitionID: facts.PrefilterLeafPartition(r)}
		if r.Bool() {
			b.MinMaxIndexes = map[string]bs.MinMaxIndex{}
			for _, key := range facts.NumKeys {
				if r.Bool() {
					lo := int64(r.Range(-60, 160))
					b.MinMaxIndexes[key] = bs.MinMaxIndex{Min: lo, Max: lo + int64(r.Range(0, 80))}
				}
			}
		}
		blocks = append(blocks, b)
	}
	e := w.Eng[0]
	run := func(q *bs.Query) (map[string]int, error) {
		ctx, cancel := context.WithTimeout(context.Background(), core.Patience)
		defer cancel()
		res := world.RunQuery(ctx, e, q)
		if res.QErr != nil {
			return nil, res.QErr
		}
		return res.VIDs, res.Err
	}
	tr := r.Split("trees")
	nTrees := 12
	if rc.Tier == "thorough" {
		nTrees = 25
	}
	for k := 0; k < nTrees; k++ {
		rc.Res.Eval(1)
		rc.Res.Count("trees", 1)
		kind := tr.Intn(5)
		switch kind {
		case 0, 1: // bloom tree via constructors or builder
			var q *bs.Query
			var a *ast
			if kind == 0 {
				e1, a1 := genBloom(tr, facts, tr.Range(1, 4))
				q = bs.NewQuery().Match(e1).Build()
				a = a1
			} else {
				// builder sequence: optional Match first, then chained calls
				qb := bs.NewQuery()
				a = &ast{Op: "and"}
				if tr.Bool() {
					e1, a1 := genBloom(tr, facts, tr.Range(0, 3))
					qb = qb.Match(e1)
					a.Kids = append(a.Kids, a1)
				}
				for n := tr.Range(0, 4); n > 0; n-- {
					leaf := facts.BloomLeaf(tr)
					for leaf.Condition == nil || (leaf.Condition.Type != bs.BloomField && leaf.Condition.Type != bs.BloomToken && leaf.Condition.Type != bs.BloomFieldToken) {
						leaf = facts.BloomLeaf(tr)
					}
					switch leaf.Condition.Type {
					case bs.BloomField:
						qb = qb.Field(leaf.Condition.Field)
					case bs.BloomToken:
						qb = qb.Token(leaf.Condition.Token)
					case bs.BloomFieldToken:
						qb = qb.FieldToken(leaf.Condition.Field, leaf.Condition.Token)
					}
					lc := leaf
					a.Kids = append(a.Kids, &ast{Op: "leaf", B: &lc})
				}
				q = qb.Build()
			}
			want := vidSetOfRecs(recs, func(rec *world.RowRec) bool {
				return a.eval(func(l *ast) bool { return rec.View.MatchBloom(l.B) })
			})
			if !c25Compare(rc, i, d, "bloom", a, q, want, run) {
				continue
			}
			if q.Bloom != nil && q.Bloom.Expression != nil {
				c25RoundTrip(rc, i, d, a, q, q.Bloom.Expression, &bs.BloomExpression{}, want, run, func(dst any) *bs.Query {
					return &bs.Query{Bloom: &bs.BloomQuery{Expression: dst.(*bs.BloomExpression)}}
				})
			}
			if len(want) > 0 && len(want) < len(recs) {
				rc.Res.Nontrivial(a.String())
			}
		case 2: // regex tree
			var q *bs.Query
			var a *ast
			if tr.Bool() {
				e1, a1 := genRegex(tr, facts, tr.Range(1, 3))
				q = bs.NewQuery().MatchRegex(e1).Build()
				a = a1
			} else {
				qb := bs.NewQuery()
				a = &ast{Op: "and"}
				if tr.Bool() {
					e1, a1 := genRegex(tr, facts, tr.Range(0, 2))
					qb = qb.MatchRegex(e1)
					a.Kids = append(a.Kids, a1)
				}
				for n := tr.Range(0, 3); n > 0; n-- {
					leaf := facts.RegexLeaf(tr)
					for leaf.Condition == nil {
						leaf = facts.RegexLeaf(tr)
					}
					qb = qb.FieldRegex(leaf.Condition.Field, leaf.Condition.Pattern)
					lc := leaf
					a.Kids = append(a.Kids, &ast{Op: "leaf", R: &lc})
				}
				q = qb.Build()
			}
			if q.Regex != nil && refsem.CheckRegex(q.Regex.Expression) == refsem.RegexInvalid {
				continue
			}
			want := vidSetOfRecs(recs, func(rec *world.RowRec) bool {
				return a.eval(func(l *ast) bool { return rec.View.MatchRegex(l.R) })
			})
			if !c25Compare(rc, i, d, "regex", a, q, want, run) {
				continue
			}
			if q.Regex != nil && q.Regex.Expression != nil {
				c25RoundTrip(rc, i, d, a, q, q.Regex.Expression, &bs.RegexExpression{}, want, run, func(dst any) *bs.Query {
					return &bs.Query{Regex: &bs.RegexQuery{Expression: dst.(*bs.RegexExpression)}}
				})
			}
			if len(want) > 0 && len(want) < len(recs) {
				rc.Res.Nontrivial(a.String())
			}
		default: // prefilter tree: per-block verdicts
			e1, a := genPrefilter(tr, facts, tr.Range(1, 4))
			pf := &bs.QueryPrefilter{Expression: &e1}
			if tr.Chance(0.3) {
				pf = bs.NewQuery().MatchPrefilter(e1).Build().Prefilter
			}
			jb, err := json.Marshal(pf)
			if err != nil {
				rc.Violate(i, "marshal-failed", "", err.Error(), a.String())
				continue
			}
			var pf2 bs.QueryPrefilter
			if err := json.Unmarshal(jb, &pf2); err != nil {
				rc.Violate(i, "unmarshal-failed", "", err.Error(), string(jb))
				continue
			}
			jb2, _ := json.Marshal(&pf2)
			rc.Res.Count("roundtrips", 1)
			if !bytes.Equal(jb, jb2) {
				rc.Violate(i, "json-roundtrip-not-stable", "", "prefilter JSON changes on a second round trip", map[string]string{"first": string(jb), "second": string(jb2)})
				continue
			}
			tv, fv := 0, 0
			for bi := range blocks {
				b := &blocks[bi]
				want := a.eval(func(l *ast) bool {
					return refsem.BlockEval(b, &bs.QueryPrefilter{Expression: l.P}, refsem.Must)
				})
				got := bs.EvaluateDataBlockMetadata(b, pf)
				got2 := bs.EvaluateDataBlockMetadata(b, &pf2)
				if want {
					tv++
				} else {
					fv++
				}
				if got != want {
					rc.Violate(i, "prefilter-tree-verdict-differs", "", fmt.Sprintf("EvaluateDataBlockMetadata = %v, the combination the caller wrote evaluates to %v", got, want), map[string]any{"ast": a.String(), "tree": string(jb), "block": b})
					break
				}
				if got2 != got {
					rc.Violate(i, "prefilter-json-roundtrip-changes-verdict", "", fmt.Sprintf("verdict %v before and %v after a JSON round trip", got, got2), map[string]any{"tree": string(jb), "block": b})
					break
				}
			}
			if tv > 0 && fv > 0 {
				rc.Res.Nontrivial(a.String())
			}
		}
	}
	// shared operands: a base expression grown incrementally (so its Children slice may carry
	// spare capacity) is used as an operand of several later trees and builder chains; every tree
	// must keep meaning what was written when it was built, also after the later ones exist
	sr := r.Split("shared")
	for k := 0; k < 3; k++ {
		rc.Res.Count("trees", 1)
		var parts []*ast
		e0, a0 := genBloom(sr, facts, 1)
		parts = append(parts, a0)
		and := sr.Bool()
		base := e0
		for g := sr.Range(1, 4); g > 0; g-- {
			e1, a1 := genBloom(sr, facts, 1)
			parts = append(parts, a1)
			if and {
				base = bs.And(base, e1)
			} else {
				base = bs.Or(base, e1)
			}
		}
		baseAst := &ast{Op: map[bool]string{true: "and", false: "or"}[and], Kids: parts}
		type built struct {
			q    *bs.Query
			a    *ast
			json string
			want map[string]int
		}
		var all []*built
		for u := sr.Range(2, 4); u > 0; u-- {
			ex, ax := genBloom(sr, facts, 1)
			var q *bs.Query
			var a *ast
			switch sr.Intn(3) {
			case 0:
				if and {
					q = bs.NewQuery().Match(bs.And(base, ex)).Build()
				} else {
					q = bs.NewQuery().Match(bs.Or(base, ex)).Build()
				}
				a = &ast{Op: baseAst.Op, Kids: []*ast{baseAst, ax}}
			case 1:
				q = bs.NewQuery().Match(bs.And(base, ex)).Build()
				a = &ast{Op: "and", Kids: []*ast{baseAst, ax}}
			default:
				leaf := facts.BloomLeaf(sr)
				for leaf.Condition == nil || leaf.Condition.Type != bs.BloomToken {
					leaf = bs.Token(core.Pick(sr, append([]string{"x"}, facts.Tokens...)))
				}
				q = bs.NewQuery().Match(base).Token(leaf.Condition.Token).Build()
				lc := leaf
				a = &ast{Op: "and", Kids: []*ast{baseAst, {Op: "leaf", B: &lc}}}
			}
			b := &built{q: q, a: a, json: queryJSON(q)}
			b.want = vidSetOfRecs(recs, func(rec *world.RowRec) bool {
				return b.a.eval(func(l *ast) bool { return rec.View.MatchBloom(l.B) })
			})
			all = append(all, b)
		}
		for _, b := range all {
			if j := queryJSON(b.q); j != b.json {
				rc.Violate(i, "tree-changed-after-construction", "", "a Query's expression changed after another expression sharing one of its operands was built", map[string]any{"when_built": b.json, "now": j, "ast": b.a.String()})
				break
			}
			if !c25Compare(rc, i, d, "bloom(shared operand)", b.a, b.q, b.want, run) {
				break
			}
		}
		rc.Res.Count("shared_operand_groups", 1)
	}
	// the same sharing hazard for regex and prefilter constructors and for builder chains after
	// MatchRegex: a tree, once built, must keep its JSON form when further trees are derived from
	// one of its operands (evaluation of these kinds is covered above; here only stability)
	for k := 0; k < 3; k++ {
		and := sr.Bool()
		rbase := facts.RegexLeaf(sr)
		pbase := facts.PrefilterLeaf(sr)
		for g := sr.Range(1, 4); g > 0; g-- {
			if and {
				rbase = bs.RegexAnd(rbase, facts.RegexLeaf(sr))
				pbase = bs.PrefilterAnd(pbase, facts.PrefilterLeaf(sr))
			} else {
				rbase = bs.RegexOr(rbase, facts.RegexLeaf(sr))
				pbase = bs.PrefilterOr(pbase, facts.PrefilterLeaf(sr))
			}
		}
		type snap struct {
			what string
			get  func() string
			was  string
		}
		var snaps []*snap
		jsonOf := func(v any) string { b, _ := json.Marshal(v); return string(b) }
		for u := sr.Range(2, 4); u > 0; u-- {
			var rx bs.RegexExpression
			var px bs.PrefilterExpression
			if and {
				rx, px = bs.RegexAnd(rbase, facts.RegexLeaf(sr)), bs.PrefilterAnd(pbase, facts.PrefilterLeaf(sr))
			} else {
				rx, px = bs.RegexOr(rbase, facts.RegexLeaf(sr)), bs.PrefilterOr(pbase, facts.PrefilterLeaf(sr))
			}
			leaf := facts.RegexLeaf(sr)
			var q *bs.Query
			if leaf.Condition != nil {
				q = bs.NewQuery().MatchRegex(rbase).FieldRegex(leaf.Condition.Field, leaf.Condition.Pattern).MatchPrefilter(px).Build()
			} else {
				q = bs.NewQuery().MatchRegex(rx).MatchPrefilter(px).Build()
			}
			rxc, pxc, qc := rx, px, q
			for _, sn := range []*snap{
				{what: "regex tree", get: func() string { return jsonOf(rxc) }},
				{what: "prefilter tree", get: func() string { return jsonOf(pxc) }},
				{what: "query built with MatchRegex/FieldRegex/MatchPrefilter", get: func() string { return queryJSON(qc) }},
			} {
				sn.was = sn.get()
				snaps = append(snaps, sn)
			}
		}
		for _, sn := range snaps {
			if now := sn.get(); now != sn.was {
				rc.Violate(i, "tree-changed-after-construction", "", "a "+sn.what+" changed after another expression sharing one of its operands was built", map[string]any{"when_built": sn.was, "now": now})
				break
			}
		}
		rc.Res.Count("shared_operand_groups_regex_prefilter", 1)
	}
	// whole-Query round trip
	qr := r.Split("q")
	for k := 0; k < 6; k++ {
		q := facts.Query(qr)
		if refsem.CheckRegex(regexOf(q)) == refsem.RegexInvalid {
			continue
		}
		jb, err := json.Marshal(q)
		if err != nil {
			rc.Violate(i, "marshal-failed", "", err.Error(), nil)
			continue
		}
		var q2 bs.Query
		if err := json.Unmarshal(jb, &q2); err != nil {
			rc.Violate(i, "unmarshal-failed", "", err.Error(), string(jb))
			continue
		}
		jb2, _ := json.Marshal(&q2)
		rc.Res.Count("roundtrips", 1)
		if !bytes.Equal(jb, jb2) {
			rc.Violate(i, "json-roundtrip-not-stable", "", "Query JSON changes on a second round trip", map[string]string{"first": string(jb), "second": string(jb2)})
			continue
		}
		a1, e1 := run(q)
		a2, e2 := run(&q2)
		if e1 != nil || e2 != nil {
			rc.Violate(i, "query-error-on-healthy-stores", "", fmt.Sprintf("%v %v", e1, e2), string(jb))
			continue
		}
		if !sameCounts(a1, a2) {
			rc.Violate(i, "query-json-roundtrip-changes-results", "", fmt.Sprintf("%d rows before, %d rows after a JSON round trip of the Query", len(a1), len(a2)), string(jb))
		}
	}
	if i < 3 {
		rc.Res.Sample(map[string]any{"scenario": d.Case, "rows": len(recs), "blocks": len(blocks)})
	}
}

func c25Compare(rc *RunCtx, i int, d *world.Descriptor, what string, a *ast, q *bs.Query, want map[string]int, run func(*bs.Query) (map[string]int, error)) bool {
	got, err := run(q)
	if err != nil {
		rc.Violate(i, "query-error-on-healthy-stores", "", err.Error(), map[string]any{"ast": a.String(), "query": queryJSON(q)})
		return false
	}
	if !sameCounts(got, want) {
		rc.Violate(i, what+"-tree-verdict-differs", "", fmt.Sprintf("the tree built by the public constructors/builder returns %d rows; the combination the caller wrote matches %d", len(got), len(want)), map[string]any{"ast": a.String(), "query": queryJSON(q), "scenario": d})
		return false
	}
	return true
}

func c25RoundTrip(rc *RunCtx, i int, d *world.Descriptor, a *ast, q *bs.Query, expr any, dst any, want map[string]int, run func(*bs.Query) (map[string]int, error), wrap func(any) *bs.Query) {
	jb, err := json.Marshal(expr)
	if err != nil {
		rc.Violate(i, "marshal-failed", "", err.Error(), a.String())
		return
	}
	if err := json.Unmarshal(jb, dst); err != nil {
		rc.Violate(i, "unmarshal-failed", "", err.Error(), string(jb))
		return
	}
	jb2, _ := json.Marshal(dst)
	rc.Res.Count("roundtrips", 1)
	if !bytes.Equal(jb, jb2) {
		rc.Violate(i, "json-roundtrip-not-stable", "", "expression JSON changes on a second round trip", map[string]string{"first": string(jb), "second": string(jb2)})
		return
	}
	got, err := run(wrap(dst))
	if err != nil {
		rc.Violate(i, "query-error-on-healthy-stores", "", err.Error(), string(jb))
		return
	}
	if !sameCounts(got, want) {
		rc.Violate(i, "json-roundtrip-changes-results", "", fmt.Sprintf("%d rows after a JSON round trip of the expression, %d expected", len(got), len(want)), map[string]any{"ast": a.String(), "json": string(jb)})
	}
}
