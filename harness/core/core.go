// Package core holds what every check shares: the run context, the
// splittable PRNG, result aggregation across worker processes, evidence and
// replay writers and the known-findings matcher.
package core

import (
	"encoding/json"
	"fmt"
	"hash/fnv"
	"os"
	"path/filepath"
	"strconv"
	"sync"
	"time"
)

// VerifDir is the root of the verification tree (evidence, replay, scratch,
// known findings). bin/check exports VERIF_DIR as its own root so that a
// snapshot of /verif run elsewhere keeps its outputs to itself.
var VerifDir = func() string {
	if d := os.Getenv("VERIF_DIR"); d != "" {
		return d
	}
	return "/verif"
}()

// Rand is a small splittable PRNG (splitmix64). Every random choice of a case
// derives from (VERIF_SEED, check id, case index) through Split, so a case is
// a fixed function of the seed.
type Rand struct{ s uint64 }

func NewRand(seed uint64) *Rand { return &Rand{s: seed*0x9E3779B97F4A7C15 + 0x1234567} }

func (r *Rand) Uint64() uint64 {
	r.s += 0x9E3779B97F4A7C15
	z := r.s
	z = (z ^ (z >> 30)) * 0xBF58476D1CE4E5B9
	z = (z ^ (z >> 27)) * 0x94D049BB133111EB
	return z ^ (z >> 31)
}

// Split derives an independent generator labelled by parts.
func (r *Rand) Split(parts ...any) *Rand {
	h := fnv.New64a()
	fmt.Fprintf(h, "%d", r.s)
	for _, p := range parts {
		fmt.Fprintf(h, "|%v", p)
	}
	return NewRand(h.Sum64())
}

func (r *Rand) Intn(n int) int {
	if n <= 0 {
		return 0
	}
	return int(r.Uint64() % uint64(n))
}
func (r *Rand) Int63() int64     { return int64(r.Uint64() >> 1) }
func (r *Rand) Float64() float64 { return float64(r.Uint64()>>11) / (1 << 53) }
func (r *Rand) Bool() bool       { return r.Uint64()&1 == 1 }

// Patience is the generous wall-clock allowance for operations that must simply succeed on
// healthy stores (building a scenario, a query, a merge, a graceful Stop). It is a watchdog, not
// a verdict threshold: on a machine loaded with sixteen race-instrumented children such an
// operation can take minutes; a hung engine is decided by the stuck detectors and the per-child
// watchdog, never by this timeout.
const Patience = 15 * time.Minute

// Perm returns a PRNG permutation of 0..n-1.
func (r *Rand) Perm(n int) []int {
	p := make([]int, n)
	for i := range p {
		p[i] = i
	}
	for i := n - 1; i > 0; i-- {
		j := r.Intn(i + 1)
		p[i], p[j] = p[j], p[i]
	}
	return p
}

// Chance is true with probability p.
func (r *Rand) Chance(p float64) bool { return r.Float64() < p }

// Range returns an int in [lo, hi].
func (r *Rand) Range(lo, hi int) int {
	if hi <= lo {
		return lo
	}
	return lo + r.Intn(hi-lo+1)
}

func Pick[T any](r *Rand, xs []T) T { return xs[r.Intn(len(xs))] }

func Shuffle[T any](r *Rand, xs []T) {
	for i := len(xs) - 1; i > 0; i-- {
		j := r.Intn(i + 1)
		xs[i], xs[j] = xs[j], xs[i]
	}
}

// Violation is one refutation of a property, with the witness that replays it.
type Violation struct {
	Property  string `json:"property"`
	Kind      string `json:"kind"`
	Signature string `json:"signature"` // matched against known_findings.json
	Case      string `json:"case"`      // seed/case identification
	Message   string `json:"message"`
	Witness   any    `json:"witness,omitempty"`
}

// Result is what one worker (or the merged run) observed.
type Result struct {
	Evaluations  int64            `json:"evaluations"`
	Distinct     []uint64         `json:"distinct,omitempty"` // hashes of distinct non-trivial cases
	Counters     map[string]int64 `json:"counters"`
	Samples      []any            `json:"samples,omitempty"`
	Violations   []Violation      `json:"violations,omitempty"`
	Inconclusive []string         `json:"inconclusive,omitempty"`
	Notes        []string         `json:"notes,omitempty"`
	mu           sync.Mutex
}

func NewResult() *Result { return &Result{Counters: map[string]int64{}} }

func (r *Result) Count(name string, n int64) {
	r.mu.Lock()
	r.Counters[name] += n
	r.mu.Unlock()
}

// Max keeps the maximum of a gauge-type counter.
func (r *Result) Max(name string, v int64) {
	r.mu.Lock()
	if v > r.Counters[name] {
		r.Counters[name] = v
	}
	r.mu.Unlock()
}

func (r *Result) Eval(n int64) {
	r.mu.Lock()
	r.Evaluations += n
	r.mu.Unlock()
}

// Nontrivial records one distinct non-trivial case by a hash of its content.
func (r *Result) Nontrivial(parts ...any) {
	h := fnv.New64a()
	for _, p := range parts {
		fmt.Fprintf(h, "%v|", p)
	}
	r.mu.Lock()
	r.Distinct = append(r.Distinct, h.Sum64())
	r.mu.Unlock()
}

func (r *Result) Sample(s any) {
	r.mu.Lock()
	if len(r.Samples) < 4 {
		r.Samples = append(r.Samples, s)
	}
	r.mu.Unlock()
}

func (r *Result) Violate(v Violation) {
	r.mu.Lock()
	if len(r.Violations) < 200 {
		r.Violations = append(r.Violations, v)
	}
	r.Counters["violations_raw"]++
	r.mu.Unlock()
}

func (r *Result) Inconc(reason string) {
	r.mu.Lock()
	r.Inconclusive = append(r.Inconclusive, reason)
	r.mu.Unlock()
}

func (r *Result) Note(s string) {
	r.mu.Lock()
	if len(r.Notes) < 50 {
		r.Notes = append(r.Notes, s)
	}
	r.mu.Unlock()
}

// Merge folds o into r. Counters named max.* are gauges (maximum), all
// others are sums.
func (r *Result) Merge(o *Result) {
	r.mu.Lock()
	defer r.mu.Unlock()
	r.Evaluations += o.Evaluations
	r.Distinct = append(r.Distinct, o.Distinct...)
	for k, v := range o.Counters {
		if len(k) > 4 && k[:4] == "max." {
			if v > r.Counters[k] {
				r.Counters[k] = v
			}
		} else {
			r.Counters[k] += v
		}
	}
	for _, s := range o.Samples {
		if len(r.Samples) < 5 {
			r.Samples = append(r.Samples, s)
		}
	}
	r.Violations = append(r.Violations, o.Violations...)
	r.Inconclusive = append(r.Inconclusive, o.Inconclusive...)
	for _, n := range o.Notes {
		if len(r.Notes) < 50 {
			r.Notes = append(r.Notes, n)
		}
	}
}

func (r *Result) DistinctCount() int {
	seen := map[uint64]struct{}{}
	for _, h := range r.Distinct {
		seen[h] = struct{}{}
	}
	return len(seen)
}

// KnownFinding is one entry of /verif/known_findings.json.
type KnownFinding struct {
	Status    string `json:"status"` // "known" or "fixed"
	Property  string `json:"property"`
	Signature string `json:"signature,omitempty"`
	Commit    string `json:"commit,omitempty"`
	What      string `json:"what"`
}

func LoadKnownFindings() []KnownFinding {
	var out []KnownFinding
	path := filepath.Join(VerifDir, "known_findings.json")
	if p := os.Getenv("VERIF_KNOWN"); p != "" {
		path = p
	}
	b, err := os.ReadFile(path)
	if err != nil {
		return nil
	}
	if err := json.Unmarshal(b, &out); err != nil {
		fmt.Fprintf(os.Stderr, "known_findings.json unreadable: %v\n", err)
		return nil
	}
	return out
}

// Spec describes a check for evidence purposes.
type Spec struct {
	ID          string
	Level       string // exploration | fault_enumeration
	Rule        string
	Assumptions []string
	// Floors: counters that must be at least this large or the run is
	// inconclusive (a check that observed nothing must not pass).
	Floors map[string]int64
}

// Finish writes evidence, prints verdict lines and returns the exit code.
func Finish(spec Spec, tier string, seed int64, res *Result, start time.Time) int {
	known := LoadKnownFindings()
	var unknown []Violation
	knownHit := map[string]int{}
	for _, v := range res.Violations {
		matched := false
		for _, k := range known {
			if k.Status == "known" && k.Property == v.Property && k.Signature != "" && k.Signature == v.Signature {
				knownHit[k.Signature]++
				matched = true
				break
			}
		}
		if !matched {
			unknown = append(unknown, v)
		}
	}

	var inconclusive []string
	inconclusive = append(inconclusive, res.Inconclusive...)
	for name, floor := range spec.Floors {
		if res.Counters[name] < floor {
			inconclusive = append(inconclusive, fmt.Sprintf("floor %s: observed %d < %d", name, res.Counters[name], floor))
		}
	}

	distinct := res.DistinctCount()
	cov := map[string]any{
		"evaluations":         res.Evaluations,
		"distinct_nontrivial": distinct,
		"rule":                spec.Rule,
		"samples":             res.Samples,
		"counters":            res.Counters,
	}
	if len(res.Notes) > 0 {
		cov["notes"] = res.Notes
	}
	if len(knownHit) > 0 {
		cov["known_findings_observed"] = knownHit
	}
	if len(inconclusive) > 0 {
		cov["inconclusive"] = inconclusive
	}
	if len(res.Samples) == 0 {
		cov["samples"] = []any{"(no sample recorded)"}
	}
	ev := map[string]any{
		"property_id": spec.ID,
		"tier":        tier,
		"seed":        seed,
		"level":       spec.Level,
		"coverage":    cov,
		"assumptions": spec.Assumptions,
		"wall_s":      time.Since(start).Seconds(),
		"violations":  len(unknown),
	}
	os.MkdirAll(filepath.Join(VerifDir, "evidence"), 0o755)
	b, _ := json.MarshalIndent(ev, "", " ")
	if err := os.WriteFile(filepath.Join(VerifDir, "evidence", spec.ID+".json"), b, 0o644); err != nil {
		fmt.Fprintf(os.Stderr, "cannot write evidence: %v\n", err)
	}

	// one line per listed known finding of this property (with how often this run observed it)
	for _, k := range known {
		if k.Status == "known" && k.Property == spec.ID {
			fmt.Printf("KNOWN-FINDING: property=%s %s (signature %s, observed %d times in this run)\n", spec.ID, k.What, k.Signature, knownHit[k.Signature])
		}
	}

	if len(unknown) > 0 {
		dir := filepath.Join(VerifDir, "replay", spec.ID)
		os.MkdirAll(dir, 0o755)
		// one replay file per distinct kind, at most 5
		written := map[string]bool{}
		n := 0
		for _, v := range unknown {
			key := v.Kind + "|" + v.Signature
			if written[key] || n >= 5 {
				continue
			}
			written[key] = true
			n++
			path := filepath.Join(dir, fmt.Sprintf("%s-seed%d-%d.json", tier, seed, n))
			wb, _ := json.MarshalIndent(map[string]any{"violation": v, "tier": tier, "seed": seed, "replay": fmt.Sprintf("VERIF_SEED=%d bin/check %s %s", seed, spec.ID, tier)}, "", " ")
			os.WriteFile(path, wb, 0o644)
			fmt.Printf("VIOLATION property=%s replay=%s\n", v.Property, path)
			fmt.Printf("  kind=%s case=%s %s\n", v.Kind, v.Case, trunc(v.Message, 600))
		}
		fmt.Printf("%s %s: %d violation(s) (%d distinct kinds shown), evaluations=%d distinct=%d\n", spec.ID, tier, len(unknown), n, res.Evaluations, distinct)
		return 1
	}
	if len(inconclusive) > 0 {
		for _, s := range inconclusive {
			fmt.Printf("INCONCLUSIVE property=%s reason=%s\n", spec.ID, s)
		}
		return 3
	}
	fmt.Printf("%s %s: held on what was observed: evaluations=%d distinct_nontrivial=%d wall=%.1fs\n", spec.ID, tier, res.Evaluations, distinct, time.Since(start).Seconds())
	return 0
}

func trunc(s string, n int) string {
	if len(s) <= n {
		return s
	}
	return s[:n] + "…"
}

func Trunc(s string, n int) string { return trunc(s, n) }

// SeedFromEnv reads VERIF_SEED (default 1).
func SeedFromEnv() int64 {
	if s := os.Getenv("VERIF_SEED"); s != "" {
		if v, err := strconv.ParseInt(s, 10, 64); err == nil {
			return v
		}
	}
	return 1
}
