#!/usr/bin/env python3
"""Regenerates /verif/MANIFEST.json from the table below (kept here so the
manifest always validates and every property is either claimed or listed under
not_applicable)."""
import json, subprocess

REPO_HOOK_COMMITS = ["ad75fb0"]

# id -> (category, technique, level text, level note, design ref)
CLAIMED = {
 "C01": ("exploration", "differential runtime oracle: independent reference semantics vs. Query over generated scenarios",
         "Runs the real engine over generated ingest/flush/merge histories (three store pairs, six tokenizers, all compressions, FPR 0.5..1e-12) and compares every query result against an independent encoding/json-based reference: every stored row the reference says must be returned is returned. Held on the executions observed.",
         "Trusted: harness/refsem (written from README/FILE_FORMAT.md), Go encoding/json, the ledger of ingested rows. Regex patterns come from a fixed family.", "6/C01"),
 "C02": ("exploration", "differential runtime oracle + block-membership reconstruction (must/may) over generated scenarios",
         "Every returned row is checked to be a stored, matching row, never more often than stored; without a prefilter the multiset must be exact; with one the result must be a union of whole blocks between must(block) and may(block). High false-positive rates are over-represented so only row verification keeps non-matching rows out.",
         "Trusted: harness/refsem, block membership read back through ReadDataBlockRowData.", "6/C02"),
}

NOT_YET = "check not built yet in this session (design in DESIGN.md section 6); not claimed until its monitor exists and is silent on the unchanged tree"

props = [json.loads(l) for l in open('/verif/properties.jsonl')]
checks, na = [], []
for p in props:
    pid = p['id']
    if pid in CLAIMED:
        cat, tech, text, note, ref = CLAIMED[pid]
        checks.append({
            "property_id": pid,
            "quick_cmd": f"bin/check {pid} quick",
            "thorough_cmd": f"bin/check {pid} thorough",
            "evidence_file": f"/verif/evidence/{pid}.json",
            "replay_cmd_template": "cat {path}  # witness; re-run: VERIF_SEED=<seed in file> bin/check " + pid + " <tier in file>",
            "engine": "vcheck",
            "level_claimed": {"category": cat, "text": text, "design_ref": "DESIGN.md section " + ref},
            "level_note": note,
            "technique": tech,
        })
    else:
        na.append({"property_id": pid, "reason": NOT_YET})

manifest = {
 "version": 1,
 "setup_cmd": "bin/setup",
 "hooks": {
   "guard": "verif",
   "enable": "go build -tags verif (harness module /verif/harness, replace github.com/danthegoodman1/bloomsearch => /repo)",
   "baseline_off_cmd": "cd /repo && GOFLAGS=-mod=mod GOPROXY=off go test -vet=off -count=1 -timeout 25m ./...",
   "source_commits": REPO_HOOK_COMMITS,
   "add_only": True,
 },
 "engines": [{"name": "vcheck", "path": "/verif/harness", "serves_properties": sorted(CLAIMED), "kind_free_text": "Go harness: seeded workloads against the real package built from /repo with -tags verif (and -race where schedules matter); monitors over store-call logs, ledgers and recorded histories; child process per shard"}],
 "checks": checks,
 "not_applicable": na,
 "notes": "Runtime monitoring only. bin/check rebuilds the harness against /repo's working tree on every invocation. Known findings: /verif/known_findings.json.",
}
json.dump(manifest, open('/verif/MANIFEST.json','w'), indent=1)
print("claimed", len(checks), "not claimed", len(na))
