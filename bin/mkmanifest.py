#!/usr/bin/env python3
"""Regenerates /verif/MANIFEST.json from the table below (kept here so the
manifest always validates and every property is either claimed or listed under
not_applicable)."""
import json, subprocess

REPO_HOOK_COMMITS = ["ad75fb0"]

# id -> (category, technique, level text, level note, design ref)
CLAIMED = {
 "C01": ("exploration", "differential runtime oracle: independent reference semantics vs. Query over generated scenarios",
         "Runs the real engine over generated ingest/flush/merge histories (three store pairs, eight tokenizers incl. a non-idempotent one, all compressions, FPR 0.5..1e-12) and compares every query result against an independent encoding/json-based reference: every stored row the reference says must be returned is returned; after the generated queries an entry sweep looks up every distinct token, field path and field:token pair the stored rows produce (sampled beyond a cap) on its own. Rows carry planted membership-key collisions; scenarios include rejected (unmarshalable) batches, externally written files, engines behind a MetaStore that leaves all prefiltering to the engine, and a closure-wrapped default tokenizer. Held on the executions observed.",
         "Trusted: harness/refsem (written from README/FILE_FORMAT.md), Go encoding/json, the ledger of ingested rows. Regex patterns come from a fixed family.", "6/C01"),
 "C02": ("exploration", "differential runtime oracle + block-membership reconstruction (must/may) over generated scenarios",
         "Every returned row is checked to be a stored, matching row, never more often than stored; without a prefilter the multiset must be exact; with one the result must be a union of whole blocks between must(block) and may(block). High false-positive rates are over-represented so only row verification keeps non-matching rows out; an entry sweep checks exactness entry by entry (number/bool literals, case-folded words).",
         "Trusted: harness/refsem, block membership read back through ReadDataBlockRowData.", "6/C02"),
 "C04": ("exploration", "exact-arithmetic (math/big) oracle over the public conversion/evaluation functions + prefilter-only queries on generated scenarios",
         "Function layer: for generated Go numeric values of every kind (named types, huge unsigned, floats beyond int64, infinities) and boundary operands, whenever exact arithmetic says the value satisfies a condition the block built through ConvertToMinMaxInt64/UpdateMinMaxIndex must pass EvaluateMinMaxCondition / EvaluateDataBlockMetadata / FilterDataBlocks, alone and inside AND/OR trees. Engine layer: after flush and merge, a prefilter-only query a stored row satisfies must return the row.",
         "Trusted: math/big comparison as the meaning of 'satisfies'; NaN excluded as documented.", "6/C04"),
 "C11": ("exploration", "before/after inventory + differential queries around each committed Merge",
         "Populations written by up to three engine configurations are merged for up to six rounds by an engine with fresh limits; after every committed Merge the multiset of row ids, each row's partition and minmax coverage, and the answers of 30 queries (exact equality without prefilter, superset-of-matching with) are compared against the state before.",
         "Trusted: inventory read back through ReadDataBlockRowData; reference semantics for 'matches'.", "6/C11"),
 "C12": ("exploration", "MetaStore.Update call log of each Merge mapped back to source blocks through row ids",
         "Populations include chains (file j shares a partition only with file j+1) and limits chosen to bind on the population itself (MaxFileSize = two or three of its files together, row-group limits = two or three of its blocks together). Each committed Merge's writes/deletes are checked against the merging engine's limits: combined blocks within MaxRowGroupRows/Bytes and from one partition and one minmax key set, copied blocks whole, deletes <= MaxFilesToMergePerOperation, merged sources per output <= MaxFileSize.",
         "File size for merging = sum of block OnDiskSize (the engine's documented measure).", "6/C12"),
 "C17": ("exploration", "independent format parser (harness/extfmt) + ledger vs. every file the engine leaves behind",
         "Every file in the stores after generated flush/merge histories must parse with ReadFileMetadata, agree field for field with an independent parser written from FILE_FORMAT.md, tile exactly (row data from 0, sections in block order, footer adjacent), carry correct CRC32C/sizes/row counts/codec, return through the public helpers exactly the bytes and filters on disk, and report entry counts equal to what the reference walker measures.",
         "Trusted: harness/extfmt, harness/refsem, klauspost/compress and bits-and-blooms decoders.", "6/C17"),
 "C18": ("exploration", "reference walker/tokeniser entries tested against real filter bits; ledger vs. block minmax/partition metadata",
         "For every block and file after generated histories: every field path, token and field:token pair of every row tests positive in the block filters and the file filters (footer copy and MetaStore copy); minmax key sets are exactly what rows provided numerically, ranges cover every value (exact arithmetic); partition ids equal the partition function on every row.",
         "Trusted: harness/refsem; membership key for pairs path::token.", "6/C18"),
 "C25": ("exploration", "AST-vs-constructor differential evaluation through Query/EvaluateDataBlockMetadata + JSON round-trip monitor",
         "Trees built through the public constructors and builder sequences are compared, row by row and block by block, with the boolean combination the caller wrote (harness AST with reference leaf semantics); every expression and Query is round-tripped through encoding/json (same verdicts, stable bytes).",
         "Builder orders whose meaning is unspecified (chained calls before Match) carry no verdict; strings valid UTF-8.", "6/C25"),
 "C20": ("exploration", "consumer-script monitor over the real cursor with fault/delay plans at instrumented stores and tagged schedule points, under the race detector",
         "Hundreds of generated Next/cancel/Close/concurrent-Close scripts (incl. cancel, then a pause long enough for the pipeline to wind down, then Next; MetaStore iterations failing at their start, first yield or midway in queries left to run to the end; a configured Logger whose handler is slow; handles whose reads fail once the query context is done) (plain cancellable contexts and contexts carrying a far-away deadline, cancelled directly or through their parent) with injected OpenFile/Read/Seek/iterator failures and PRNG delays run against started, never-started and stopped engines; a concurrent Close is held behind the consumer's final Next and the state read then must be the state after Close returned; the terminal state (sticky false, nil Row, Err classification by happens-before, every reached failure reported, Close nil/idempotent/not changing a decided state) is checked per script; blocked scripts are decided by a state-based stuck detector.",
         "Err after the consumer's own Close accepts nil/joined errors/context error (documented). Race detector reports with a bloomsearch frame are violations.", "6/C20"),
 "C21": ("exploration", "handle life-cycle / iterator / goroutine / slot monitors at the instant the cursor finishes, under the race detector",
         "Same scripts as C20: when the final Next returned false or Close returned, every DataStore handle the query opened is closed exactly once and its Close call (which the store may make slow) has returned, none was used after close or by two operations at once (atomic in-use flag plus plain shadow field for the race detector), the MetaStore iterator has returned; goroutines started by Query and the engine's slot gauge are polled to zero.",
         "Goroutine exit polled up to 5 s (stable-state rule).", "6/C21"),
 "C22": ("exploration", "in-flight Read gauge on the instrumented DataStore + bounded-progress monitor with stalled consumers, under the race detector",
         "Concurrent queries over slow reads: max simultaneous DataStore reads never exceeds MaxQueryConcurrency (1..8), also over files whose block filter pass takes one read per block (filter sections laid out in reverse order); queries whose consumers never read — or read a little after the pipeline settled and then stop, with their MetaStore iterators paused after a few files — are parked and all other queries must still complete (stuck detector).",
         "Gauge covers reads made by queries only (nothing else runs in the window).", "6/C22"),
 "C23": ("exploration", "Stats-vs-inventory monitor after every finished query (clean, terminated and failing)",
         "After Next returned false the per-block stats are checked: unique (file, offset), skipped blocks carry zero counters, blocks that produced returned rows are listed as processed, all-or-none per file against must/may, on clean completion processed counters equal the block's real row/byte counts, totals equal sums, RowsMatched equals rows returned. Runs on the C01 scenario stream and on the C20 scripts.",
         "All-or-none only asserted for queries not terminated early.", "6/C23"),
 "C24": ("exploration", "read/open log of the instrumented DataStore vs. pruning recomputed from the real filter bits",
         "For each query (every fifth one meets a transient OpenFile/Read failure), files whose file-level filters rule out the bloom tree must not be opened, row data of blocks ruled out by prefilter or block filters (bloom tree, or a field the regex conditions need being absent from the block's field filter) must not be read, condition-less queries must not touch a filter region, and every read must lie inside the file and the declared extents.",
         "File level: only the bloom tree defines 'ruled out'; block level: bloom tree and the field-presence demand of the regex tree (weakest reading). Trees with unknown node kinds carry no verdict.", "6/C24"),
 "C05": ("exploration", "exactly-once ledger over done channels under concurrent producers, Start/Stop races, PRNG store faults and schedule-point delays, with the race detector",
         "Histories of 2-24 concurrent producers (all batch and done-channel kinds, rejected batches of up to 160 rows with several bad rows spread over partitions, Flush callers) with Start early/late/twice/never, Stop racing with them, queries and merges alongside and flush-path store failures: after Stop returned nil every accepted batch has exactly one answer, refused batches have none, every Flush call has returned, both workers have exited. Most batches of some histories report to one shared done channel (capacity 1-2); Stop is also called from two goroutines at once and again after it returned. In a third of the histories callers are held between the stopped check and the channel send while Stop runs, at a tagged point and through caller contexts whose Done() is slow. Stuck detector for bounded progress.",
         "'Keeps receiving' = receiver parked before the call; callers use context timeouts on a never-started engine.", "6/C05"),
 "C06": ("fault_enumeration", "store-call fault enumeration over recorded sequential histories (generic and context-error-wrapping Update failures); answers compared with queries on this and a fresh engine",
         "Every single flush-path store-call position of each explored history (CreateFile, every Write, Close pre- and post-effect, Update) is failed in turn, then every cleanup call (Abort/TombstoneFile/Close) the failure provoked, plus PRNG pairs; after every Flush and at the end: nil answer => rows visible exactly once on this and a fresh engine, error answer => never visible, unmarshalable batch => error and no trace, no batch unanswered or answered twice.",
         "Exhaustive over single positions of the explored histories; histories themselves are sampled. MetaStore.Update atomic (MemoryMetaStore behind the wrapper).", "6/C06"),
 "C07": ("exploration", "gated-store workload + late-receiver histories + monotone len() monitor over never-consumed buffered done channels + visibility query at every Flush return, with the race detector",
         "A flush-path store call is held at a gate while clients keep sending batches and Flush calls; a polling monitor over the buffered done channels (monotone state) and a check at every Flush return require that whenever a batch is answered nil or Flush returns nil, every non-empty batch accepted earlier is already answered, and those answered nil are visible to a query. Late-receiver histories: an earlier batch's unbuffered done channel gets its receiver only after a later subject was seen answered (or 250 ms) — an explicit Flush, a limit- or time-triggered flush of a later batch, or a Flush arriving after the earlier batch's own flush committed but before its answer was delivered; a later subject answered before that is a violation. Some gated histories hold a time-triggered flush at the gate with nothing queued behind it; in every third history each batch lives in one of 2-4 partitions and only the partition row limit triggers flushes; in another third one flush fails after its file was created and its cleanup is slow while later flushes succeed (the error answers must still come first).",
         "Order = real-time precedence on the harness's logical clock; empty batches are not subjects.", "6/C07"),
 "C08": ("exploration", "wedged-store/unreachable-backend/abandoned-channel workloads x context kinds (incl. a foreign context with late AfterFunc) with store-call log and stop.flagged hook, under the race detector",
         "Stop is called while a flush is held at a ctx-ignoring gate, the backend is unreachable behind a store that honours contexts (and stays so after Stop returned: the deadline abort alone must unwind the workers and answer every waiter that can receive), and/or done channels are abandoned (batches of every kind, incl. those the ingest actor answers itself); Flush calls issued while the worker is held must return, and with an error once the deadline aborted the flushes ahead of them: callers starting after the stop.flagged hook get ErrEngineStopped; Stop returns on its own (the gate stays shut until then or deadline + 8 s); after a deadline error no CreateFile starts (store log ticks); after unwedging, workers exit and every waiter with capacity has exactly one value.",
         "A flush already inside a store call when the deadline fires may finish. The only wall-clock threshold is 8 s beyond deadlines of 60-250 ms.", "6/C08"),
 "C09": ("exploration", "accepted-minus-answered gauge (answers counted where they sit in the done channels) under a stalled (gated) store, with partitioned / fresh-partition-per-batch / empty batches and byte limits spread over orders of magnitude, with the race detector",
         "With the store shut at a gate and producers offering 20x the bound, the number of accepted-but-unanswered batches never exceeds IngestBufferSize + 4*ceil(trigger/batchRows) + 2 and saturated IngestRows calls end with their context error.",
         "Only the row-count trigger active so a flush's worth of batches is well defined.", "6/C09"),
 "C10": ("exploration", "harness-side buffer model (rows, bytes, per-partition) predicting limit-triggered flushes; time-trigger cases with thresholds far from both behaviours",
         "A sequential client ingests without Flush/Stop; whenever the harness's model of the buffers says a configured limit was reached, everything buffered must be answered with no further input; with only MaxBufferedTime active a batch must be answered on its own. Includes batches accepted before Start.",
         "Verdict threshold = expected instant + 10 s (correct ~0.1 s, broken = never).", "6/C10"),
 "C13": ("fault_enumeration", "store-call fault enumeration over Merge from identical deep copies; classification by whether MetaStore.Update applied",
         "Every single store-call position of each explored population's Merge (iterator start and yields, CreateFile, OpenFile, Seek, Read, Write, Close pre/post, Update, TombstoneFile pre/post) is failed in turn, then the cleanup calls each failure provoked, PRNG pairs, a context cancelled mid-merge and a concurrent second Merge (the first held at its listing, source open, output create, write or commit). Committed runs must return nil or stats+ErrPostCommitCleanup with outputs referenced, sources unreferenced and tombstoned only after the commit; uncommitted runs must return an error, leave the MetaStore identical and never tombstone a source; visible rows never change.",
         "Exhaustive over single positions of explored populations. MetaStore.Update atomic. Update is also failed with an error wrapping context.Canceled while the Merge context is cancelled. Every fourth population uses FileSystemDataStore as both stores (fresh directory copy per run), where an uncommitted published output is visible content; runs whose cleanup calls the harness made fail are exempt from the content comparison there.", "6/C13"),
 "C14": ("exploration", "ack/start-tick snapshot monitor over concurrent writers, merger and query loops, match-all and partition-prefiltered (both shipped MetaStores, -race) + porcupine linearizability of MemoryMetaStore histories",
         "Every finished query is checked against the set of rows acknowledged before its start tick (Err == nil => each exactly once; never a duplicate or a never-ingested row); MemDataStore really deletes so vanished files must surface as errors. Short concurrent Update/snapshot histories of MemoryMetaStore are checked linearizable with porcupine. The FileSystemDataStore-as-MetaStore variant reports the known merge-window finding by signature and anything else as a violation.",
         "FS-variant attribution: store kind fs ∧ anomaly ∈ {duplicate, omission} ∧ every affected row belongs to sources of a merge whose call overlaps the query's lifetime.", "6/C14"),
 "C16": ("exploration", "sequential specification model vs. directory listing/OpenFile/scan after every operation, forced name collisions via the tagged setter; concurrent variant under the race detector",
         "Generated CreateFile/Write/Close/Abort/TombstoneFile/OpenFile/scan sequences over up to six interleaved writers with the name draw forced through 1-4 names: after every operation the directory must equal a 40-line model's artifacts exactly, published pointers must return exactly their bytes, the scan must list exactly the published valid bloom files, CreateFile must never return a live pointer. A goroutine-per-writer variant checks the final state.",
         "A writer whose pointer was tombstoned mid-write is retired; tombstones only in the sequential variant (a pointer is a name; see DESIGN.md). Store roots include names that contain the store's own extensions (.dat, .tmp) and foreign entries; redundant second Close, Abort after Close, stale Close after Abort and aborts that land between a scan's directory listing and its reading of the entries are part of the sequences.", "6/C16"),
 "C27": ("exploration", "fd 1/2 capture of an engine-only child process (plus strace write-syscall cross-check in the thorough tier)",
         "A child process built without -race runs ingest, flush (limit/time/explicit), query, merge and Stop histories with store failures at every call kind, targeted double faults (a primary failure plus the failure of the cleanup it provokes, on flush and on merges that already published output; a merge cancelled midway, failing Close of read handles), the public read helpers over damaged files, the numeric conversion functions on odd values and query JSON that does not parse, corrupt/truncated files, external-writer files with absent filters, cancelled queries, unmarshalable rows and both Stop-deadline abandonment paths, with no Logger configured; both descriptors must stay empty and the child must exit 0.",
         "The child's own summary goes to a file, never to fd 1/2.", "6/C27"),
 "C15": ("fault_enumeration", "crash-image enumeration at every filesystem mutation callback + shadow durability model fed by fsync syscalls observed with strace; every image reopened by a fresh store and engine",
         "Each history (flushes, failing flushes, and merges that really combine files: floors on committed merges) runs in a child process under strace; after every filesystem mutation the directory is copied (process-crash image) with the ack set at that instant; durability facts (which file/directory fsyncs really returned between two crash points) come from the syscall trace, not from the hooks. Process-crash, torn-write and power-loss images (durable namespace + prefixes/subsets of pending namespace operations; unsynced tails dropped, truncated or zero-filled) must each recover: scan succeeds, yielded files fully readable, match-all query without error, every row acked before the crash point present, nothing never ingested, nothing more often than ingested.",
         "Exhaustive over the mutation boundaries of each explored history; power-loss subsets sampled. Conservative POSIX model. If strace cannot run the hooks are trusted for durability (recorded in evidence).", "6/C15"),
 "C03": ("exploration", "DeepEqual against the encoding/json round trip + fingerprint-then-mutate monitor over concurrent queries, under the race detector (+checkptr)",
         "16-48 concurrent queries over blocks of varied sizes and all compressions with PRNG delays at the query schedule points, plus an early-termination phase on blocks of several hundred rows (consumers keep rows of queries they then Close/cancel mid-block while later queries re-draw the pooled buffers); every returned row must equal the encoding/json round trip of the ingested row, and after the harness deep-mutates half of the retained rows every other retained row and a fresh query must be unchanged.",
         "Rows encoding/json cannot decode are compared by _vid only. Known finding: raw JSON with repeated keys.", "6/C03"),
 "C19": ("exploration", "mutation workload (byte-level, CRC-consistent framing, checksum-consistent deep mutations, truncation under hash-less MetaStore-held metadata behind os.File handles) with panic/fatal/allocation/row-content/read-beyond-end monitors",
         "Thousands of mutated files (bit flips, bursts, truncations at structural boundaries, extensions, splices, zeroed ranges; footer re-encoded with consistent CRC and boundary-valued or foreign in-bounds offsets/sizes incl. UncompressedSize and Rows, traded, nested, overlapping or re-ordered filter sections, duplicated / missing / shared blocks; files re-assembled with every checksum consistent but a malformed row stream, filter section, bloom header or size), each written to disk before use: no panic or fatal error, allocation per call bounded by 16x(file + original uncompressed sizes) + 8 MiB, original-metadata queries return the exact answer or an error, every returned row is a written row.",
         "Two defects found by these mutations were repaired in /repo (fa95dcf, f17c844). For deep mutations the wrong-row clause is asserted only where the framed rows are still byte-identical to written rows.", "6/C19"),
 "C26": ("exploration", "statistical probe of every written filter with never-inserted strings against the documented 3x tolerance + 6 sigma",
         "Filters of every level and kind, holding 1 to 50 000 (thorough 300 000) distinct entries plus volume cases of 600 000 - 1 500 000 entries in one file, at rates 0.3..1e-4, flushed, multi-block and merged, written by one engine or by two engines with different rates sharing the store (each filter probed against the rate its own metadata records), with texts under one or under several fields (so the three filter kinds hold different numbers of entries), are (quick volume case: 900 000 entries at 1e-4 in one partition) read back through the public helpers and probed with N >= 2e5 absent strings; the observed rate must stay within 3p + 6 sigma.",
         "Statistical: false-alarm probability bounded by the 6 sigma margin plus the 3x slack (worst observed for n >= 50 is about 1.1x). Known finding for n < 50.", "6/C26"),
}

NOT_YET = "check not built yet in this session (design in DESIGN.md section 6); not claimed until its monitor exists and is silent on the unchanged tree"

props = [json.loads(l) for l in open('/verif/properties.jsonl')]
checks, na = [], []
for p in props:
    pid = p['id']
    if pid in CLAIMED:
        cat, tech, text, note, ref = CLAIMED[pid]
        checks.append({
            "property_id": pid,
            "quick_cmd": f"bin/check {pid} quick",
            "thorough_cmd": f"bin/check {pid} thorough",
            "evidence_file": f"/verif/evidence/{pid}.json",
            "replay_cmd_template": "cat {path}  # witness; re-run: VERIF_SEED=<seed in file> bin/check " + pid + " <tier in file>",
            "engine": "vcheck",
            "level_claimed": {"category": cat, "text": text, "design_ref": "DESIGN.md section " + ref},
            "level_note": note,
            "technique": tech,
        })
    else:
        na.append({"property_id": pid, "reason": NOT_YET})

manifest = {
 "version": 1,
 "setup_cmd": "bin/setup",
 "hooks": {
   "guard": "verif",
   "enable": "go build -tags verif (harness module /verif/harness, replace github.com/danthegoodman1/bloomsearch => /repo)",
   "baseline_off_cmd": "cd /repo && GOFLAGS=-mod=mod GOPROXY=off go test -vet=off -count=1 -timeout 25m ./...",
   "source_commits": REPO_HOOK_COMMITS,
   "add_only": True,
 },
 "engines": [{"name": "vcheck", "path": "/verif/harness", "serves_properties": sorted(CLAIMED), "kind_free_text": "Go harness: seeded workloads against the real package built from /repo with -tags verif (and -race where schedules matter); monitors over store-call logs, ledgers and recorded histories; child process per shard"}],
 "checks": checks,
 "not_applicable": na,
 "notes": "Runtime monitoring only. bin/check rebuilds the harness against /repo's working tree on every invocation. Known findings: /verif/known_findings.json.",
}
json.dump(manifest, open('/verif/MANIFEST.json','w'), indent=1)
print("claimed", len(checks), "not claimed", len(na))
